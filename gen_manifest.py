#!/usr/bin/env python3
# Regenerates MANIFEST.json from the table below (kept next to DESIGN.md so the two stay in step).
import json
props=[json.loads(l) for l in open('/verif/properties.jsonl')]
ids=[p['id'] for p in props]
TECH="bounded symbolic execution of the real go/ssa (own engine gosym) with SMT (z3 5.1.0; z3 4.8.12/cvc5 cross-check), counterexamples replayed natively"
claimed={
 "C01": ("One frame of any size 0..4 MiB (plain or AES-GCM, any mirrored stream state) through the real sendMessageWithEnd/ReceiveFrameWithEnd: accepted by sender => accepted by receiver, byte-identical (Skolem index), flag kept; state relation re-established (inductive step).", "5.C01",
         "ideal AEAD (DESIGN 3); frames <= 4 MiB; TCP short writes, PutFile/GetFile outside"),
 "C02": ("Keyed receiver at any position of a 3-frame honest sequence, adversary supplies any 5-byte header and any body <= 1 MiB: whatever ReceiveFrame/ReceiveFrameWithEnd accepts is exactly the honest frame for that position; ReceiveCompleteMessage reassembly over 3 adversarial frames equals the reference.", "5.C02",
         "ideal AEAD INT-CTXT contract; one adversarial frame per step (induction over steps); <= 3 honest neighbours as replay candidates"),
 "C12": ("Real sender in any keyed state vs an independent decoder written from the format text (nonce, AAD, IV-on-first, header-as-AAD), and spec-built frames vs the real receivers; counter exhaustion; RNG-fresh IV and zeroed counters on key install; counter continuity across crypto toggles.", "5.C12",
         "AES-GCM idealised: Open succeeds iff key/nonce/AAD/ciphertext equal a sealed tuple; payload <= 1 MiB"),
 "C04": ("Stream-layer lemmas: every cleartext send/receive before key installation feeds exactly header||payload to the digest of its direction (recording SHA-256 in the harness), key installation freezes both digests (zero block for an unused direction) and later traffic never changes them, and two endpoints whose frozen digests differ in any byte reject each other's first protected frame; composition argument in DESIGN 5.C04.", "5.C04",
         "hash and AEAD idealised (collision resistance / INT-CTXT as axioms); whole-handshake relay experiments are outside (lemma-level decision)"),
 "C13": ("Typed readers of the message layer (GetChar/GetInt*/GetBytes/GetRemainingBytes/GetString/GetStringWithMaxSize/SkipString) over 2-3 adversarial frames of symbolic length and content in both modes: no panic (bounds, nil, make, division all checked), allocations <= bytes delivered + 64, byte-wise loops end within input size + 4 iterations (unwinding assertion), caps honoured.", "5.C13",
         "frames <= 12 bytes each (small-input progress variant); handshake-level and text parsers are being added (not yet covered)"),
 "C14": ("Put*/Get* of every integer width, char and NUL-free strings <= 6 bytes against an independently written big-endian reference layout, and decode of the emitted bytes re-cut at every symbolic 2-frame split; NUL truncation on send.", "5.C14",
         "strings <= 6 bytes whose first byte is not the in-band NULL marker 0xAD (never the first byte of valid UTF-8); doubles: each direction against the format (exponents within [-1100,1100]), the round-trip error bound is not decided"),
 "C15": ("Export from any exportable stream state and import around another connection: all fields the send/receive paths read agree, an untouched peer exchanges protected frames with the imported stream both ways and the result is exportable again (inductive over hand-offs); export refused exactly on the nine documented conditions; truncated / bad-magic / wrong-version blobs rejected.", "5.C15",
         "ideal AEAD; peer address <= 8 bytes; payloads <= 4 KiB in the continuation step"),
 "C03": ("Handshake decided piecewise on the real code: negotiateSecurity+handleClientAuthentication / handleServerAuthentication (arbitrary parsed peer configuration, arbitrary bitmask replies, nondeterministic method outcome), negotiateSecurity+setupStreamEncryption (arbitrary peer levels, cipher lists, key presence, either ECDH outcome), and glue harnesses showing performFullAuthentication / ServerHandshakeWithMessage run the three steps once, in order, on the returned negotiation.", "5.C03",
         "method bodies, ECDH and HKDF replaced by nondeterministic stubs through overlay seams (same stubs natively in replay); message layer replaced by typed item queues; <= 2 methods per list, <= 2 retry rounds"),
 "C06": ("handleSessionResumption over a cache of 1-2 arbitrary sessions (+ global-cache fallback) and an arbitrary request; resumeSession with an arbitrary cached entry and arbitrary reply; one arbitrary cache operation followed by every lookup (dead sessions unreachable by every route); a protected frame recorded on one resumed connection against a fresh server stream of the same session with an arbitrary reply.", "5.C06",
         "ids <= 4 bytes; clock readings within one minute of each other; expiry either >= 1 s in the past or >= 1 h ahead; replay of a recorded resumed connection decided in two halves (stream-side acceptance when the cleartext transcripts repeat; handshake-side fixed reply), reported as KNOWN-FINDING"),
 "C07": ("A session filed by the real storeClientSession under (tag, server, valid commands) and a later ClientHandshake with arbitrary (tag', server', command') on the same cache: it rides the session iff all three match; failed resumption and invalidation drop every route (shared with C06 harnesses).", "5.C07",
         "tags <= 3 bytes and addresses <= 4 bytes without ',' '{' '}' (the Sprintf key is not injective otherwise); exact decimal rendering for |n| < 10^18"),
 "C10": ("Real negotiateSecurity against an independently written decision table over all level pairs and method / cipher lists of length 0-2 (authentication half and encryption half); two honest endpoints through the real negotiate / publish / parse / negotiate / key-setup chain agree on both outcomes and the key; the server retry loop round by round.", "5.C10",
         "two-party agreement covers the negotiation decision, the published answer and key setup (symmetric key-agreement stub); the two retry loops are checked one side at a time against arbitrary peers, not in lock-step"),
 "C05": ("Real ServeConn with one raw and four authenticated handlers of differing per-command policy, arbitrary first command, arbitrary handshake result (stubbed through a seam), an authorizer that answers arbitrarily on every call, up to two follow-up commands: each handler runs for its own command, on an open connection, via the right path, on a session meeting that command's policy now and authorized by a grant obtained for that dispatch; refusals close the connection.", "5.C05",
         "the handshake result is arbitrary (its truthfulness is C03's subject); <= 3 commands per connection"),
 "C08": ("The decoder's literal shortcut against reference recognisers of the ClassAd lexer's literal tokens for every value text <= 6 bytes; the parsing, raw-text and skipping receivers over the same wire images (count 0-2, 0-4 strings incl. the secret marker, both framings).", "5.C08",
         "reference recognisers (DESIGN A.4) are the trusted base; the sender-side round trip over the full expression grammar (external parser) is outside"),
 "C09": ("Real putClassAdToMessageWithOptions on an ad whose attribute name is arbitrary (<= 13 identifier bytes), all privacy option combinations, whitelist, encrypted-attribute list, any peer version, three stream states: private values reach the wire only with opt-in (and version gate), and on a keyed stream only in frames flushed while encrypting.", "5.C09",
         "independent private-name predicate (DESIGN A.6); second attribute fixed in the quick tier"),
 "C16": ("ParseClaimIDStrict on sid#[info]key for arbitrary parts (<= 5 bytes each, sid may contain '#'); ExportSecSessionInfo/ImportSecSessionInfo round trip over 5120 policy combinations.", "5.C16",
         "resume-by-claim over a connection is not covered; expiry decided separately (claimExpiration)"),
 "C18": ("Real validateFSAuthPath/fsAddrLeaf/verifyFSPathEndpoint over arbitrary paths (<= 24/30 bytes) and connection addresses against independently written leaf shapes: accepted => directly under /tmp, one safe component, recognised shape, address-qualified names name the connected endpoint; real performFSAuthenticationServer against every kind of object at the agreed path, and real performFSAuthenticationClient against arbitrary supplied paths, on a filesystem model.", "5.C18",
         "IPv4 endpoints (IPv6 texts only as an uninterpreted function); filesystem effects decided on the engine's filesystem model (single owner, sequential), replayed natively on real objects under /tmp"),
 "C11": ("validateTokenTiming over an arbitrary clock, claim types and maximum age; the server and client token flows with the real third / second step and the real deferred-failure logic, earlier steps and the MAC / key derivations replaced by stubs of arbitrary outcome: success only if no step failed, the peer reported OK, echoed identity and nonce, and sent exactly the expected MAC with nothing trailing; identity recorded is the one validation established.", "5.C11",
         "signature recomputation and HMAC/HKDF are stubs (seams); token contents are four concrete shapes (JSON modelled for concrete documents); standalone VerifyIDToken not covered"),
 "C19": ("Real readWithContext / writeWithContext with a harness context implementing the context package's AfterFunc hook and a connection that completes, fails or stalls until closed, under every cancellation timing: cancelled => returns the context's error with the connection closed (a stalled call is unblocked); never-cancelled or non-cancellable context => exactly the I/O's result.", "5.C19",
         "sequential model of a blocked call (the harness fires the cancellation inside Read/Write); latency and kernel unblock semantics are outside; context threading is asserted in every handshake harness (marked context), the TLS tunnel over an I/O-pattern model of crypto/tls"),
 "C17": ("Lock-set consistency of the shared state, decided on every path of the real code: every unordered pair of 17 session-cache / session-entry operations (store, three lookups, map, invalidate, expiry sweep, renew, expire test, snapshot, dump, size, clear, accessors) from a cache with entries in arbitrary expiry states accesses each shared field or map under a common mutex (writer holding it exclusively), and an invalidated id is unreachable afterwards; two handshakes built on one shared SecurityConfig touch it read-only and each advertises its own ephemeral key; one send and one receive on an established stream (cleartext or keyed, first protected frames exchanged or not) touch disjoint state. Lock-set violations are confirmed by running the same pair in two goroutines under the race detector.", "5.C17",
         "lock-set discipline is a sufficient condition for race freedom, checked per pair of operations (Eraser-style, made path-complete by symbolic execution); interleaving-dependent behaviour beyond lock discipline (whole concurrent handshakes against one server, CCB broker writers) is not modelled; ECDH keys modelled as distinct opaque values"),
 "C20": ("Real acceptReversed over up to three arriving connections with arbitrary hellos (command, connect id present/absent/other/unreadable) and a cancelled context; real proxyRequestOnStream against an arbitrary broker reply and hello.", "5.C20",
         "message layer replaced by typed stubs; Dial decided in sequential mode (timers never fire, go runs to completion); the goroutine race in dialStandard and staggered concurrent attempts are outside (no thread model)"),
}
checks=[]
for i in ids:
    if i in claimed:
        text,ref,note=claimed[i]
        checks.append({"property_id":i,
          "quick_cmd":f"./bin/gosym check {i} --tier quick",
          "thorough_cmd":f"./bin/gosym check {i} --tier thorough",
          "evidence_file":f"/verif/evidence/{i}.json",
          "replay_cmd_template":"./bin/gosym replay {path}",
          "engine":"gosym",
          "level_claimed":{"category":"model_checking","text":"Bounded symbolic model checking of the real code: "+text+" Every assertion and implicit panic check is an SMT query over all inputs within the stated bounds; sat answers are replayed against the real build before being reported.","design_ref":ref},
          "level_note":note+"; Go 1.26.8 go/ssa view of /repo; standard-library models listed in the evidence; loops bounded by unwinding assertions",
          "technique":TECH})
m={"version":1,
"setup_cmd":"cd /verif/engine && GOTOOLCHAIN=local GOFLAGS=-mod=mod GOPROXY=off PATH=/opt/veriftools/go1.26.8/bin:$PATH go build -o ../bin/gosym ./cmd/gosym",
"hooks":{"guard":"verif","enable":"none needed: harnesses are injected with go/packages and go test overlays (no hook commits in /repo)","baseline_off_cmd":"cd /repo && GOFLAGS=-mod=mod GOPROXY=off go test -vet=off -count=1 ./...","source_commits":[],"add_only":True},
"engines":[{"name":"gosym","path":"engine","serves_properties":[c["property_id"] for c in checks],"kind_free_text":"own Go SSA symbolic executor -> SMT-LIB2 (z3/cvc5), bounded; harnesses in /verif/harness overlaid into /repo packages"}],
"checks":checks,
"notes":"see DESIGN.md; known_findings.json lists genuine defects (fixed by 'fix:' commits in /repo, or known)",
"not_applicable":[{"property_id":i,"reason":"no sound encoding built: the claim is about goroutine interleavings and the memory model, which this engine (sequential symbolic execution of go/ssa) does not model; see DESIGN.md section 6"} for i in ids if i not in claimed]}
json.dump(m,open('/verif/MANIFEST.json','w'),indent=1)
print(len(checks),"claimed")

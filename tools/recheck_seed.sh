#!/bin/bash
# usage: recheck_seed.sh <property> <seed-id> "<what was strengthened>"
# Re-runs the property's quick check against a stored seeded change after a check
# was strengthened; records the first (missed) and the new outcome in meta.json.
set -u
P=$1; ID=$2; WHY=${3:-}
D=/verif/seeded/$ID
git -C /repo apply $D/patch.diff || exit 3
(cd /verif && timeout 1800 ./bin/gosym check $P > $D/check_after.txt 2>&1; echo $? > $D/check_after.exit)
git -C /repo checkout -- .
C=$(cat $D/check_after.exit)
python3 - <<PY
import json
p="$D/meta.json"; m=json.load(open(p))
if "check_exit_first" not in m:
    m["check_exit_first"]=m["check_exit"]; m["detected_first"]=m["detected"]
m["check_exit"]=$C; m["detected"]=($C==1)
if """$WHY""": m["strengthened"]="""$WHY"""
json.dump(m,open(p,"w"),indent=1)
PY
grep -E "VIOLATION|label=" $D/check_after.txt | head -4
echo "RECHECK $ID check_exit=$C"

#!/usr/bin/env python3
import json,glob,os,re
rows=[]
for d in sorted(glob.glob('/verif/seeded/*/')):
    mp=os.path.join(d,'meta.json')
    if not os.path.exists(mp): continue
    m=json.load(open(mp))
    chk=os.path.join(d,'check_after.txt') if os.path.exists(os.path.join(d,'check_after.txt')) else os.path.join(d,'check.txt')
    labels=[]
    if os.path.exists(chk):
        for l in open(chk):
            mm=re.search(r'harness=(\S+) kind=\S+ label="([^"]+)"',l)
            if mm: labels.append(f"{mm.group(1)}: {mm.group(2)}")
    notes=open(os.path.join(d,'notes.md')).read() if os.path.exists(os.path.join(d,'notes.md')) else ''
    first=notes.strip().split('\n')
    rows.append((m['seed'],m['property'],m.get('suite_green_with_change'),m.get('demo_fails_with_change'),m.get('demo_passes_without_change'),m.get('detected'),m.get('detected_first',m.get('detected')),'; '.join(dict.fromkeys(labels))[:300],m.get('strengthened','') or ('SUPERSEDED: '+m['superseded'] if m.get('superseded') else '')))
out=['# Seeded changes','',"Each row: a change written by a fresh sub-agent from the property text alone; confirmed here (suite green with it, demo fails with / passes without); `detected` = the property's quick check exits 1 with a natively replayed VIOLATION when the patch is applied to /repo.",'',
'| seed | property | suite green | demo fails with | demo passes without | detected | detected at first | reported by | strengthening |','|---|---|---|---|---|---|---|---|---|']
for r in rows: out.append('| '+' | '.join(str(x) for x in r)+' |')
open('/verif/seeded/INDEX.md','w').write('\n'.join(out)+'\n')
print(len(rows),'seeds;',sum(1 for r in rows if r[5]),'detected;',sum(1 for r in rows if r[6]),'at first;',sum(1 for r in rows if r[5] is None),'superseded')

#!/bin/bash
# usage: recheck_seed2.sh <property> <seed-id> "<what was strengthened>" [extra gosym args]
# Re-runs the property's quick check against a stored seeded change after a check was
# strengthened, in a throw-away worktree of /repo's HEAD with the patch applied
# (GOSYM_REPO), so /repo is untouched and rechecks can run in parallel.
set -u
P=$1; ID=$2; WHY=${3:-}; shift; shift; shift
D=/verif/seeded/$ID
WT=/tmp/rc_$ID; OUT=/tmp/rcout_$ID
git -C /repo worktree remove --force $WT 2>/dev/null; rm -rf $WT $OUT; mkdir -p $OUT
git -C /repo worktree add -q --detach $WT HEAD || exit 3
git -C $WT apply $D/patch.diff || { git -C /repo worktree remove --force $WT; exit 3; }
(cd /verif && GOSYM_REPO=$WT GOSYM_OUT=$OUT timeout 1800 ./bin/gosym check $P "$@" > $D/check_after.txt 2>&1; echo $? > $D/check_after.exit)
git -C /repo worktree remove --force $WT; rm -rf $OUT
C=$(cat $D/check_after.exit)
python3 - <<PY
import json
p="$D/meta.json"; m=json.load(open(p))
if "check_exit_first" not in m:
    m["check_exit_first"]=m["check_exit"]; m["detected_first"]=m["detected"]
m["check_exit"]=$C; m["detected"]=($C==1)
if """$WHY""": m["strengthened"]="""$WHY"""
json.dump(m,open(p,"w"),indent=1)
PY
grep -E "VIOLATION|label=" $D/check_after.txt | head -4
echo "RECHECK $ID check_exit=$C"

#!/bin/bash
# usage: eval_seed.sh <property> <worktree> <seed-id>
# Confirms a seeded change (suite green with it; demo fails with / passes without),
# stores it under /verif/seeded/<seed-id>/ and runs the property's quick check
# against /repo with the change applied (undone afterwards).
set -u
P=$1; WT=$2; ID=$3
export GOFLAGS=-mod=mod GOPROXY=off
D=/verif/seeded/$ID
mkdir -p $D
cp $WT/MUTATION.diff $D/patch.diff
cp $WT/MUTATION.md $D/notes.md 2>/dev/null
DEMO=$(cd $WT && git status --porcelain | grep '^??' | grep '_test.go' | awk '{print $2}' | head -1)
cp $WT/$DEMO $D/ 2>/dev/null
PKG=./$(dirname $DEMO)
cd $WT
echo "== demo with change (expect FAIL)"; go test ${DEMO_FLAGS:-} -vet=off -count=1 -run 'Demo' $PKG > $D/demo_with.txt 2>&1; W=$?; tail -3 $D/demo_with.txt
git apply -R MUTATION.diff
echo "== demo without change (expect ok)"; go test ${DEMO_FLAGS:-} -vet=off -count=1 -run 'Demo' $PKG > $D/demo_without.txt 2>&1; WO=$?; tail -2 $D/demo_without.txt
git apply MUTATION.diff
mv $DEMO /tmp/demo_$ID.go.bak
echo "== full suite with change (expect green)"; go test -vet=off -count=1 ./... > $D/suite_with.txt 2>&1; S=$?; grep -v "no test files" $D/suite_with.txt | grep -v "^ok" | head -5
mv /tmp/demo_$ID.go.bak $DEMO
echo "== check $P against the change"
git -C /repo apply $D/patch.diff && (cd /verif && timeout 1500 ./bin/gosym check $P > $D/check.txt 2>&1; echo $? > $D/check.exit); git -C /repo checkout -- .
C=$(cat $D/check.exit)
grep -E "VIOLATION|label=|RESULT|INCONC" $D/check.txt | head -8
python3 - <<PY
import json
json.dump({"property":"$P","seed":"$ID","demo_package":"$PKG","demo_file":"$(basename $DEMO)",
 "demo_fails_with_change": $W != 0, "demo_passes_without_change": $WO == 0, "suite_green_with_change": $S == 0,
 "check_exit": $C, "detected": $C == 1,
 "ran": ["go test -run Demo $PKG (with / without the change)", "go test ./... with the change", "git -C /repo apply patch.diff; ./bin/gosym check $P; git -C /repo checkout -- ."],
 "needs": open("$D/notes.md").read()[:1500] if __import__('os').path.exists("$D/notes.md") else ""}, open("$D/meta.json","w"), indent=1)
PY
echo "SUMMARY $ID demo_with=$W demo_without=$WO suite=$S check_exit=$C"

#!/bin/bash
# usage: eval_seed2.sh <property> <worktree> <seed-id>
# Like eval_seed.sh, but the property's quick check is pointed at the scratch worktree
# that holds the seeded change (GOSYM_REPO / GOSYM_OUT), so /repo is never touched and
# several seeds can be evaluated at once. The registered checks always use /repo; the
# redirection exists only for this evaluation.
set -u
P=$1; WT=$2; ID=$3
export GOFLAGS=-mod=mod GOPROXY=off
D=/verif/seeded/$ID
mkdir -p $D
cp $WT/MUTATION.diff $D/patch.diff
cp $WT/MUTATION.md $D/notes.md 2>/dev/null
DEMO=$(cd $WT && git status --porcelain | grep '^??' | grep '_test.go' | awk '{print $2}' | head -1)
cp $WT/$DEMO $D/ 2>/dev/null
PKG=./$(dirname $DEMO)
cd $WT
echo "== demo with change (expect FAIL)"; go test ${DEMO_FLAGS:-} -vet=off -count=1 -run 'Demo' $PKG > $D/demo_with.txt 2>&1; W=$?; tail -3 $D/demo_with.txt
git apply -R MUTATION.diff
echo "== demo without change (expect ok)"; go test ${DEMO_FLAGS:-} -vet=off -count=1 -run 'Demo' $PKG > $D/demo_without.txt 2>&1; WO=$?; tail -2 $D/demo_without.txt
git apply MUTATION.diff
mv $DEMO /tmp/demo_$ID.go.bak
echo "== full suite with change (expect green)"; go test -vet=off -count=1 -timeout 30m ./... > $D/suite_with.txt 2>&1; S=$?; grep -v "no test files" $D/suite_with.txt | grep -v "^ok" | head -5
echo "== check $P against the change (worktree $WT)"
OUT=/tmp/gsout_$ID; rm -rf $OUT; mkdir -p $OUT
(cd /verif && GOSYM_REPO=$WT GOSYM_OUT=$OUT timeout 1800 ./bin/gosym check $P > $D/check.txt 2>&1; echo $? > $D/check.exit)
mv /tmp/demo_$ID.go.bak $DEMO
rm -rf $OUT
C=$(cat $D/check.exit)
grep -E "VIOLATION|label=|RESULT|INCONC" $D/check.txt | head -8
python3 - <<PY
import json
json.dump({"property":"$P","seed":"$ID","demo_package":"$PKG","demo_file":"$(basename $DEMO)",
 "demo_fails_with_change": $W != 0, "demo_passes_without_change": $WO == 0, "suite_green_with_change": $S == 0,
 "check_exit": $C, "detected": $C == 1,
 "ran": ["go test -run Demo $PKG (with / without the change)", "go test ./... with the change", "./bin/gosym check $P against the worktree holding the change (GOSYM_REPO; equivalent to git -C /repo apply patch.diff; check; git -C /repo checkout -- .)"],
 "needs": open("$D/notes.md").read()[:1500] if __import__('os').path.exists("$D/notes.md") else ""}, open("$D/meta.json","w"), indent=1)
PY
echo "SUMMARY $ID demo_with=$W demo_without=$WO suite=$S check_exit=$C"

package stream

import (
	"crypto/aes"
	"crypto/cipher"
	"encoding/binary"
)

func init() {
	vRegister("VH_C12_SendFormat", VH_C12_SendFormat)
	vRegister("VH_C12_RecvFormat", VH_C12_RecvFormat)
	vRegister("VH_C12_Fresh", VH_C12_Fresh)
	vRegister("VH_C12_Toggle", VH_C12_Toggle)
	vRegister("VH_C12_CleartextPrefix", VH_C12_CleartextPrefix)
}

// specNonce is the documented nonce: base IV with its leading 32-bit word
// advanced by the frame counter.
func vhSpecNonce(iv [16]byte, ctr uint32) []byte {
	nonce := make([]byte, 16)
	copy(nonce, iv[:])
	binary.BigEndian.PutUint32(nonce[0:4], binary.BigEndian.Uint32(iv[0:4])+ctr)
	return nonce
}

func vhSpecAAD(first bool, d1, d2, hdr []byte) []byte {
	var aad []byte
	if first {
		aad = append(aad, d1...)
		aad = append(aad, d2...)
	}
	aad = append(aad, hdr...)
	return aad
}

func vhAEAD(key []byte) cipher.AEAD {
	block, err := aes.NewCipher(key)
	if err != nil {
		vAssume(false)
	}
	g, err := cipher.NewGCMWithNonceSize(block, 16)
	if err != nil {
		vAssume(false)
	}
	return g
}

// VH_C12_SendFormat: a keyed sender in an arbitrary state (any counter, first
// frame sent or not, any frozen digests) emits a frame; an independent decoder
// written from the format document (nonce, AAD, IV-on-first-frame, header as AAD)
// must open it and recover the plaintext. At counter 2^32-1 the send is refused.
func VH_C12_SendFormat() {
	sc := &vhConn{}
	s := vhNewStream(sc)
	key := vBlob("key", 32)
	if s.SetSymmetricKey(key) != nil {
		vAssume(false)
	}
	ctr := vUint32("ctr")
	firstDone := vBool("firstDone")
	dS := vBlob("digestS", 32)
	dR := vBlob("digestR", 32)
	s.encryptCounter = ctr
	s.finishedSendAAD = firstDone
	s.finalSendDigest = dS
	s.finalRecvDigest = dR
	iv := s.encryptIV
	n := vInt("n")
	vAssume(n >= 0)
	vAssume(n <= 1<<20)
	d := vBlob("d", n)
	end := vByte("end")
	vAssume(end <= 1)
	err := s.sendMessageWithEnd(vhCtx, d, end)
	if ctr == 0xffffffff {
		vCover("counter-exhausted")
		vAssert(err != nil, "refuses-to-wrap-counter")
		vAssert(len(sc.outs) == 0, "nothing-emitted-at-counter-max")
		vAssert(s.encryptCounter == ctr, "counter-not-wrapped")
		return
	}
	L := n + 16
	if ctr == 0 {
		L += 16
	}
	if err != nil {
		vCover("too-large")
		vAssert(L > MaxMessageSize, "only-oversize-refused")
		// a refused send is not a frame: nothing on the wire, no counter value, IV
		// slot or first-frame associated data consumed
		vAssert(len(sc.outs) == 0, "refused-send-emits-nothing")
		vAssert(s.encryptCounter == ctr && s.finishedSendAAD == firstDone && s.encryptIV == iv, "refused-send-consumes-no-counter-or-first-frame-state")
		return
	}
	vAssert(len(sc.outs) == 1, "one-write")
	w := sc.outs[0]
	vAssert(len(w) == 5+L, "wire-length-is-header-iv-ciphertext-tag")
	if len(w) != 5+L {
		return
	}
	vAssert(w[0] == end, "header-flag")
	vAssert(int(binary.BigEndian.Uint32(w[1:5])) == L, "header-length-is-body-length")
	body := w[5:]
	if ctr == 0 {
		vAssertBytesEqual(body[:16], iv[:], "base-iv-travels-with-first-frame")
		body = body[16:]
	}
	nonce := vhSpecNonce(iv, ctr)
	aad := vhSpecAAD(!firstDone, dS, dR, w[:5])
	pt, oerr := vhAEAD(key).Open(nil, nonce, body, aad)
	vAssert(oerr == nil, "independent-decoder-opens-frame")
	if oerr != nil {
		return
	}
	vAssertBytesEqual(pt, d, "independent-decoder-recovers-plaintext")
	vAssert(s.encryptCounter == ctr+1, "counter-advanced-by-one")
	vAssert(s.encryptIV == iv, "base-iv-unchanged")
	vAssert(s.finishedSendAAD, "first-frame-flag-set")
	vCover("frame-opened-by-spec-decoder")
}

// VH_C12_RecvFormat: a frame built from the format document by the harness's own
// AES-GCM is accepted by the real receiver in the corresponding state and yields
// the plaintext.
func VH_C12_RecvFormat() {
	rc := &vhConn{}
	r := vhNewStream(rc)
	key := vBlob("key", 32)
	if r.SetSymmetricKey(key) != nil {
		vAssume(false)
	}
	ctr := vUint32("ctr")
	vAssume(ctr != 0xffffffff)
	firstDone := vBool("firstDone")
	dS := vBlob("digestS", 32) // sender's send digest
	dR := vBlob("digestR", 32) // sender's recv digest
	var iv [16]byte
	copy(iv[:], vBlob("iv", 16))
	r.decryptCounter = ctr
	r.finishedRecvAAD = firstDone
	r.finalRecvDigest = dS
	r.finalSendDigest = dR
	if ctr != 0 {
		r.decryptIV = iv
	}
	n := vInt("n")
	vAssume(n >= 0)
	vAssume(n <= 1<<19)
	d := vBlob("d", n)
	end := vByte("end")
	vAssume(end <= 1)
	L := n + 16
	if ctr == 0 {
		L += 16
	}
	hdr := []byte{end, byte(L >> 24), byte(L >> 16), byte(L >> 8), byte(L)}
	ct := vhAEAD(key).Seal(nil, vhSpecNonce(iv, ctr), d, vhSpecAAD(!firstDone, dS, dR, hdr))
	if ctr == 0 {
		rc.feed(hdr, iv[:], ct)
	} else {
		rc.feed(hdr, ct)
	}
	useWithEnd := vBool("withEnd")
	var out []byte
	var flag byte
	var err error
	if useWithEnd {
		out, flag, err = r.ReceiveFrameWithEnd(vhCtx)
	} else {
		out, err = r.ReceiveFrame(vhCtx)
		flag = end
	}
	vAssert(err == nil, "receiver-accepts-spec-frame")
	if err != nil {
		return
	}
	vAssert(flag == end, "flag")
	vAssertBytesEqual(out, d, "plaintext")
	vAssert(r.decryptCounter == ctr+1, "recv-counter-advanced")
	vAssert(rc.drained(), "consumed-exactly")
	vCover("spec-frame-accepted")
}

// VH_C12_Fresh: installing a key on a stream in any prior state draws all 16 IV
// bytes from the RNG, zeroes both counters and re-arms both first-frame flags.
func VH_C12_Fresh() {
	sc := &vhConn{}
	s := vhNewStream(sc)
	copy(s.encryptIV[:], vBlob("oldiv", 16))
	s.encryptCounter = vUint32("oldctr")
	s.decryptCounter = vUint32("olddctr")
	s.finishedSendAAD = vBool("oldf1")
	s.finishedRecvAAD = vBool("oldf2")
	key := vBlob("key", 32)
	err := s.SetSymmetricKey(key)
	vAssert(err == nil, "32-byte-key-accepted")
	vAssert(vFromRNG(s.encryptIV[:]), "iv-is-fresh-rng-output")
	vAssert(s.encryptCounter == 0 && s.decryptCounter == 0, "counters-zeroed")
	vAssert(!s.finishedSendAAD && !s.finishedRecvAAD, "first-frame-flags-rearmed")
	vAssert(s.encrypted, "encrypting")
	vAssert(len(s.finalSendDigest) == 32 && len(s.finalRecvDigest) == 32, "digests-frozen")
	// nothing was sent or received in the clear on this stream: both are zero blocks
	zero := make([]byte, 32)
	vAssertBytesEqual(s.finalSendDigest, zero, "unused-send-direction-is-zero-block")
	vAssertBytesEqual(s.finalRecvDigest, zero, "unused-recv-direction-is-zero-block")
	kl := vInt("badlen")
	vAssume(kl >= 0 && kl <= 64 && kl != 32)
	s2 := vhNewStream(&vhConn{})
	vAssert(s2.SetSymmetricKey(vBlob("badkey", kl)) != nil, "other-key-sizes-refused")
	vAssert(!s2.encrypted && s2.gcm == nil, "refused-key-installs-nothing")
	vCover("key-installed")
}

// VH_C12_Toggle: frames sent while encryption is toggled off (secret handling)
// do not consume or rewind the counter; protected frames before and after use
// consecutive counters.
func VH_C12_Toggle() {
	sc := &vhConn{}
	s := vhNewStream(sc)
	key := vBlob("key", 32)
	if s.SetSymmetricKey(key) != nil {
		vAssume(false)
	}
	ctr := vUint32("ctr")
	vAssume(ctr < 0xfffffff0)
	s.encryptCounter = ctr
	s.finishedSendAAD = vBool("firstDone")
	d := vBlob("d", 8)
	if s.sendMessageWithEnd(vhCtx, d, 1) != nil {
		vAssume(false)
	}
	vAssert(s.encryptCounter == ctr+1, "protected-frame-consumes-one-counter")
	s.SetCryptoMode(false)
	if s.sendMessageWithEnd(vhCtx, d, 1) != nil {
		vAssume(false)
	}
	vAssert(s.encryptCounter == ctr+1, "plain-frame-consumes-no-counter")
	vAssertBytesEqual(sc.outs[1][5:], d, "plain-frame-is-plain")
	// a secret inside a plain phase
	s.PrepareCryptoForSecret()
	if s.sendMessageWithEnd(vhCtx, d, 1) != nil {
		vAssume(false)
	}
	s.RestoreCryptoAfterSecret()
	vAssert(s.encryptCounter == ctr+2, "secret-frame-uses-next-counter")
	vAssert(!s.encrypted, "mode-restored")
	vAssert(s.SetCryptoMode(true), "re-enable")
	if s.sendMessageWithEnd(vhCtx, d, 1) != nil {
		vAssume(false)
	}
	vAssert(s.encryptCounter == ctr+3, "counter-sequence-continues")
	vCover("toggled")
}

// VH_C12_CleartextPrefix: the digests the first protected frames are bound to are
// the documented ones for every shape of cleartext prefix: SHA-256 of the bytes
// that crossed the wire in the clear in that direction (headers included, empty
// frames included, whichever receive entry point read them) and the all-zero block
// only for a direction in which nothing at all crossed in the clear. After the
// prefix and key installation the stream's first protected frame is opened by the
// reference decoder, and a reference-built first frame is accepted by the stream.
func VH_C12_CleartextPrefix() {
	sc := &vhConn{}
	s, sd, rd := vhRecStream(sc)
	nSent := vChoice("framesSent", 3)
	nRecv := vChoice("framesRecv", 3)
	for i := 0; i < nSent; i++ {
		k := string(rune('0' + i))
		n := vInt("sn" + k)
		vAssume(n >= 0 && n <= 3)
		if s.sendMessageWithEnd(vhCtx, vBlob("sd"+k, n), byte(vChoice("se"+k, 2))) != nil {
			vAssume(false)
		}
	}
	for i := 0; i < nRecv; i++ {
		k := string(rune('0' + i))
		n := vInt("rn" + k)
		vAssume(n >= 0 && n <= 3)
		sc.feed([]byte{byte(vChoice("re"+k, 2)), 0, 0, 0, byte(n)}, vBlob("rd"+k, n))
		var err error
		if vBool("withEnd" + k) {
			_, _, err = s.ReceiveFrameWithEnd(vhCtx)
		} else {
			_, err = s.ReceiveFrame(vhCtx)
		}
		if err != nil {
			vAssume(false)
		}
	}
	wire := len(sc.outs)
	key := vBlob("key", 32)
	if s.SetSymmetricKey(key) != nil {
		vAssume(false)
	}
	zero := make([]byte, 32)
	dS, dR := zero, zero
	if nSent > 0 {
		dS = sd.inner.Sum(nil)
		vCover("cleartext-sent")
	}
	if nRecv > 0 {
		dR = rd.inner.Sum(nil)
		vCover("cleartext-received")
	}
	d := vBlob("d", 3)
	if s.sendMessageWithEnd(vhCtx, d, 1) != nil {
		vAssume(false)
	}
	vAssert(len(sc.outs) == wire+1, "one-write")
	w := sc.outs[wire]
	vAssert(len(w) == 5+16+3+16, "first-frame-carries-iv")
	if len(w) != 5+16+3+16 {
		return
	}
	var iv [16]byte
	copy(iv[:], w[5:21])
	pt, oerr := vhAEAD(key).Open(nil, vhSpecNonce(iv, 0), w[21:], vhSpecAAD(true, dS, dR, w[:5]))
	vAssert(oerr == nil, "first-frame-bound-to-documented-digests")
	if oerr == nil {
		vAssertBytesEqual(pt, d, "plaintext")
	}
	// the peer's first frame, built from the document: its send digest is what we
	// received in the clear, its receive digest what we sent
	var piv [16]byte
	copy(piv[:], vBlob("piv", 16))
	vAssume(piv != iv) // base IVs are distinct per direction
	hdr := []byte{1, 0, 0, 0, 16 + 3 + 16}
	pd := vBlob("pd", 3)
	ct := vhAEAD(key).Seal(nil, vhSpecNonce(piv, 0), pd, vhSpecAAD(true, dR, dS, hdr))
	sc.feed(hdr, piv[:], ct)
	out, _, err := s.ReceiveFrameWithEnd(vhCtx)
	vAssert(err == nil, "peer-first-frame-accepted")
	if err == nil {
		vAssertBytesEqual(out, pd, "peer-plaintext")
	}
	vCover("prefix-bound")
}

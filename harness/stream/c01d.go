package stream

func init() {
	vRegister("VH_C01_DuplexInterleave", VH_C01_DuplexInterleave)
	vRegister("VH_C17_DuplexInterleave", VH_C17_DuplexInterleave)
}

// vhReentrantConn lets the harness act as "the other goroutine" at a precise
// moment: while the k-th Read of a receive is in progress (the receiver is
// blocked waiting for more of a frame), it runs a callback -- e.g. a send on the
// same stream -- and then serves the read.
type vhReentrantConn struct {
	vhConn
	calls int
	at    int
	while func()
}

func (c *vhReentrantConn) Read(p []byte) (int, error) {
	c.calls++
	if c.calls == c.at && c.while != nil {
		f := c.while
		c.while = nil
		f()
	}
	return c.vhConn.Read(p)
}

// VH_C01_DuplexInterleave: a stream used in both directions at once. Endpoint A
// has sent a message (so its send-side scratch storage exists); B's frame for A
// then arrives in pieces (header, first part of the body, rest), and while A's
// receive is waiting at the k-th read, A sends another message. Plain and AES-GCM
// alike, A receives B's message intact and B receives both of A's: a frame the
// sender accepted is not rejected or altered because the receiving endpoint was
// also sending.
func VH_C01_DuplexInterleave() {
	ac := &vhReentrantConn{}
	bc := &vhConn{}
	a, b := vhNewStream(&ac.vhConn), vhNewStream(bc)
	a.conn, a.reader, a.writer = ac, ac, ac
	if vBool("keyed") {
		key := vBlob("key", 32)
		if a.SetSymmetricKey(key) != nil || b.SetSymmetricKey(key) != nil {
			vAssume(false)
		}
	}
	warm := vBlob("a_first", 96)
	fromB := vBlob("b_msg", 40)
	second := vBlob("a_second", 8)
	if a.SendMessage(vhCtx, warm) != nil || b.SendMessage(vhCtx, fromB) != nil {
		vAssume(false)
	}
	w := bc.outs[0]
	if len(w) < 30 {
		vAssume(false)
	}
	ac.feed(w[:5], w[5:25], w[25:])
	ac.at = 1 + vChoice("send_during_read", 3)
	sendErr := error(nil)
	ac.while = func() { sendErr = a.SendMessage(vhCtx, second) }
	got, err := a.ReceiveFrame(vhCtx)
	vAssert(err == nil, "receiver-accepts-what-sender-sent-while-it-was-sending-itself")
	if err == nil {
		vAssert(len(got) == 40, "payload-identical")
		if len(got) == 40 {
			vAssertBytesEqual(got, fromB, "payload-identical")
		}
	}
	vAssert(sendErr == nil && len(ac.outs) == 2, "send-during-a-receive-goes-out")
	if len(ac.outs) != 2 {
		return
	}
	bc.feed(ac.outs[0], ac.outs[1])
	g1, e1 := b.ReceiveFrame(vhCtx)
	vAssert(e1 == nil && len(g1) == 96, "first-message-arrives")
	g2, e2 := b.ReceiveFrame(vhCtx)
	vAssert(e2 == nil && len(g2) == 8, "message-sent-during-the-receive-arrives")
	if e2 == nil && len(g2) == 8 {
		vAssertBytesEqual(g2, second, "message-sent-during-the-receive-arrives-intact")
	}
	vCover("duplex-roundtrip")
}

// VH_C17_DuplexInterleave: the same run read for C17 (a stream written by one
// goroutine while another reads from it: here the write happens exactly while the
// read is waiting for the rest of a frame).
func VH_C17_DuplexInterleave() { VH_C01_DuplexInterleave() }

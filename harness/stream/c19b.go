package stream

import "os"

func init() {
	vRegister("VH_C19_FileOps", VH_C19_FileOps)
}

// VH_C19_FileOps: the file-transfer operations are stream operations too. GetFile
// receives a 5-byte file (size frame, one chunk, end marker: six blocking reads)
// and PutFile sends one (three blocking writes) over a plain or keyed stream; the
// peer stalls at the k-th connection call and the context ends while that call is
// blocked: the operation returns an error with the connection closed -- at the
// size, in the payload or at the trailing end marker alike. When the peer never
// stalls the transfer completes, the bytes are the file's, and nothing is closed.
//
//verif:unwind 12
func VH_C19_FileOps() {
	ctx := &vhCancelCtx{done: make(chan struct{}), hasDone: true}
	conn := &vhStallConn{ctx: ctx}
	var s, peer *Stream
	pc := &vhConn{}
	if vBool("keyed") {
		peer, s = vhKeyedPair(pc, &vhConn{}, "")
	} else {
		peer, s = vhNewStream(pc), vhNewStream(&vhConn{})
	}
	s.conn, s.reader, s.writer = conn, conn, conn
	dir, derr := os.MkdirTemp("/tmp", "vhfile")
	if derr != nil {
		vAssume(false)
	}
	defer os.RemoveAll(dir)
	name := dir + "/f"
	content := vBlob("content", 5)
	if vBool("receive") {
		// what an honest sender puts on the wire for this file
		frames := [][]byte{{0, 0, 0, 0, 0, 0, 0, 5}, content, {0, 0, 2, 154}}
		for _, f := range frames {
			if peer.sendMessageWithEnd(vhCtx, f, 1) != nil {
				vAssume(false)
			}
		}
		for _, w := range pc.outs {
			conn.feed(w[:5], w[5:])
		}
		conn.stallAt = vChoice("stallAt", 7) // 0: never
		n, err := s.GetFile(ctx, name)
		vAssert(!conn.hung, "every-blocking-call-watches-the-context")
		if conn.stallAt != 0 {
			vCover("receive-stalled-and-cancelled")
			vAssert(err != nil, "stalled-transfer-returns-an-error")
			vAssert(conn.closed, "connection-closed-on-cancellation")
			return
		}
		vCover("receive-never-stalled")
		vAssert(err == nil && n == 5, "completes-when-the-peer-does-not-stall")
		vAssert(!conn.closed, "no-close-without-cancellation")
		got, rerr := os.ReadFile(name)
		vAssert(rerr == nil && len(got) == 5, "file-holds-what-was-sent")
		if rerr == nil && len(got) == 5 {
			vAssertBytesEqual(got, content, "file-holds-what-was-sent")
		}
		return
	}
	if os.WriteFile(name, content, 0o600) != nil {
		vAssume(false)
	}
	conn.stallAt = vChoice("stallAt", 4)
	n, err := s.PutFile(ctx, name)
	vAssert(!conn.hung, "every-blocking-call-watches-the-context")
	if conn.stallAt != 0 {
		vCover("send-stalled-and-cancelled")
		vAssert(err != nil, "stalled-transfer-returns-an-error")
		vAssert(conn.closed, "connection-closed-on-cancellation")
		return
	}
	vCover("send-never-stalled")
	vAssert(err == nil && n == 5, "completes-when-the-peer-does-not-stall")
	vAssert(!conn.closed && len(conn.outs) == 3, "no-close-without-cancellation")
}

package stream

import (
	"crypto/sha256"
	"hash"
)

func init() {
	vRegister("VH_C04_SendFeed", VH_C04_SendFeed)
	vRegister("VH_C04_RecvFeedWithEnd", VH_C04_RecvFeedWithEnd)
	vRegister("VH_C04_RecvFeed", VH_C04_RecvFeed)
	vRegister("VH_C04_Freeze", VH_C04_Freeze)
	vRegister("VH_C04_Bind", VH_C04_Bind)
}

// vhRecHash is a SHA-256 that also records exactly what it was fed.
type vhRecHash struct {
	inner hash.Hash
	fed   []byte
	n     int
}

func vhNewRecHash() *vhRecHash                   { return &vhRecHash{inner: sha256.New()} }
func (h *vhRecHash) Write(p []byte) (int, error) { h.fed = append(h.fed, p...); h.n++; return h.inner.Write(p) }
func (h *vhRecHash) Sum(b []byte) []byte         { return h.inner.Sum(b) }
func (h *vhRecHash) Reset()                      { h.inner.Reset(); h.fed = nil }
func (h *vhRecHash) Size() int                   { return 32 }
func (h *vhRecHash) BlockSize() int              { return 64 }

func vhRecStream(c *vhConn) (*Stream, *vhRecHash, *vhRecHash) {
	sd, rd := vhNewRecHash(), vhNewRecHash()
	return &Stream{conn: c, reader: c, writer: c, sendDigest: sd, recvDigest: rd}, sd, rd
}

// VH_C04_SendFeed: before the key is installed every send writes exactly
// header||payload to the connection and feeds exactly those bytes to the send
// digest (empty payloads included), after whatever was fed before.
func VH_C04_SendFeed() {
	sc := &vhConn{}
	s, sd, rd := vhRecStream(sc)
	n := vInt("n")
	vAssume(n >= 0 && n <= 1<<20)
	d := vBlob("d", n)
	end := vByte("end")
	vAssume(end <= 1)
	if s.sendMessageWithEnd(vhCtx, d, end) != nil {
		vAssume(false)
	}
	want := []byte{end, byte(n >> 24), byte(n >> 16), byte(n >> 8), byte(n)}
	want = append(want, d...)
	vAssert(len(sc.outs) == 1, "one-write")
	vAssertBytesEqual(sc.outs[0], want, "wire-is-header-then-payload")
	vAssertBytesEqual(sd.fed, want, "send-digest-fed-exactly-the-wire-bytes")
	vAssert(len(rd.fed) == 0, "recv-digest-untouched-by-send")
	vAssert(s.sendDigestWritten, "send-direction-marked-used")
	vCover("cleartext-send-fed")
}

func vhRecvFeed(withEnd bool) {
	rc := &vhConn{}
	r, sd, rd := vhRecStream(rc)
	n := vInt("n")
	vAssume(n >= 0 && n <= 1<<20)
	d := vBlob("d", n)
	fl := vByte("flag")
	hdr := []byte{fl, byte(n >> 24), byte(n >> 16), byte(n >> 8), byte(n)}
	rc.feed(hdr, d)
	vTag("n", n)
	var out []byte
	var err error
	if withEnd {
		out, _, err = r.ReceiveFrameWithEnd(vhCtx)
	} else {
		out, err = r.ReceiveFrame(vhCtx)
	}
	if err != nil {
		vCover("frame-rejected")
		return
	}
	want := append([]byte{}, hdr...)
	want = append(want, d...)
	vAssertBytesEqual(out, d, "payload")
	vAssertBytesEqual(rd.fed, want, "recv-digest-fed-exactly-the-wire-bytes")
	vAssert(len(sd.fed) == 0, "send-digest-untouched-by-receive")
	vAssert(r.recvDigestWritten, "recv-direction-marked-used")
	vCover("cleartext-receive-fed")
}

// VH_C04_RecvFeedWithEnd / VH_C04_RecvFeed: every cleartext frame read feeds
// exactly header||payload to the receive digest.
func VH_C04_RecvFeedWithEnd() { vhRecvFeed(true) }
func VH_C04_RecvFeed()        { vhRecvFeed(false) }

// VH_C04_Freeze: installing the key freezes both digests (SHA-256 of what was
// fed, or the all-zero block for an unused direction); afterwards neither
// protected nor plain traffic changes them or feeds the hashes.
func VH_C04_Freeze() {
	sc := &vhConn{}
	s, sd, rd := vhRecStream(sc)
	usedSend := vBool("usedSend")
	usedRecv := vBool("usedRecv")
	pre := vBlob("pre", 6)
	if usedSend {
		if s.sendMessageWithEnd(vhCtx, pre, 1) != nil {
			vAssume(false)
		}
	}
	if usedRecv {
		sc.feed([]byte{1, 0, 0, 0, 6}, pre)
		if _, _, err := s.ReceiveFrameWithEnd(vhCtx); err != nil {
			vAssume(false)
		}
	}
	nS, nR := len(sd.fed), len(rd.fed)
	if s.SetSymmetricKey(vBlob("key", 32)) != nil {
		vAssume(false)
	}
	zero := make([]byte, 32)
	if usedSend {
		vAssertBytesEqual(s.finalSendDigest, sd.inner.Sum(nil), "send-digest-is-hash-of-cleartext-sent")
	} else {
		vAssertBytesEqual(s.finalSendDigest, zero, "unused-send-direction-zero")
	}
	if usedRecv {
		vAssertBytesEqual(s.finalRecvDigest, rd.inner.Sum(nil), "recv-digest-is-hash-of-cleartext-received")
	} else {
		vAssertBytesEqual(s.finalRecvDigest, zero, "unused-recv-direction-zero")
	}
	fs := append([]byte{}, s.finalSendDigest...)
	frd := append([]byte{}, s.finalRecvDigest...)
	// protected and (toggled) plain traffic after the freeze
	d := vBlob("d", 4)
	if s.sendMessageWithEnd(vhCtx, d, 1) != nil {
		vAssume(false)
	}
	s.SetCryptoMode(false)
	if s.sendMessageWithEnd(vhCtx, d, 1) != nil {
		vAssume(false)
	}
	sc.feed([]byte{1, 0, 0, 0, 4}, d)
	if _, _, err := s.ReceiveFrameWithEnd(vhCtx); err != nil {
		vAssume(false)
	}
	vAssert(len(sd.fed) == nS && len(rd.fed) == nR, "hashes-not-fed-after-freeze")
	vAssertBytesEqual(s.finalSendDigest, fs, "send-digest-frozen")
	vAssertBytesEqual(s.finalRecvDigest, frd, "recv-digest-frozen")
	vCover("frozen")
}

// VH_C04_Bind: two endpoints whose frozen digests differ in at least one byte
// (i.e. their cleartext transcripts differed): the first protected frame from one
// is not accepted by the other, in either receiver entry point.
func VH_C04_Bind() {
	sc, rc := &vhConn{}, &vhConn{}
	s, r := vhNewStream(sc), vhNewStream(rc)
	key := vBlob("key", 32)
	if s.SetSymmetricKey(key) != nil || r.SetSymmetricKey(key) != nil {
		vAssume(false)
	}
	s.finalSendDigest = vBlob("sS", 32)
	s.finalRecvDigest = vBlob("sR", 32)
	r.finalRecvDigest = vBlob("rR", 32)
	r.finalSendDigest = vBlob("rS", 32)
	i := vInt("i")
	vAssume(i >= 0 && i < 32)
	which := vBool("whichDir")
	if which {
		vAssume(s.finalSendDigest[i] != r.finalRecvDigest[i])
	} else {
		vAssume(s.finalRecvDigest[i] != r.finalSendDigest[i])
	}
	n := vInt("n")
	vAssume(n >= 0 && n <= 1<<16)
	d := vBlob("d", n)
	if s.sendMessageWithEnd(vhCtx, d, 1) != nil {
		vAssume(false)
	}
	rc.feed(sc.outs[0])
	var err error
	if vBool("withEnd") {
		_, _, err = r.ReceiveFrameWithEnd(vhCtx)
	} else {
		_, err = r.ReceiveFrame(vhCtx)
	}
	vAssert(err != nil, "first-protected-frame-fails-when-transcripts-differ")
	vCover("tamper-detected")
}

package stream

import "errors"

func init() {
	vRegister("VH_C12_FailedWrite", VH_C12_FailedWrite)
}

// vhFlakyConn captures writes like vhConn, but its first `fail` writes report an
// error after the bytes (or a part of them) have left.
type vhFlakyConn struct {
	vhConn
	fail    int
	partial bool
}

var vhErrWrite = errors.New("write: connection timed out")

func (c *vhFlakyConn) Write(p []byte) (int, error) {
	if c.fail > 0 {
		c.fail--
		n := len(p)
		if c.partial {
			n = len(p) / 2
		}
		_, _ = c.vhConn.Write(p[:n])
		return n, vhErrWrite
	}
	return c.vhConn.Write(p)
}

// VH_C12_FailedWrite: no key/nonce pair is used twice even across a failed send.
// A keyed sender in an arbitrary state seals a frame whose connection write then
// fails (all or half of the bytes had already left); the caller sends again. The
// frame that was (partly) on the wire and the next one were sealed under different
// nonces: the second frame opens, under the independent decoder, at the counter
// *after* the one the failed frame used, never at the same one.
func VH_C12_FailedWrite() {
	sc := &vhFlakyConn{fail: 1, partial: vBool("partial_write")}
	s := vhNewStream(&sc.vhConn)
	s.conn, s.reader, s.writer = sc, sc, sc
	key := vBlob("key", 32)
	if s.SetSymmetricKey(key) != nil {
		vAssume(false)
	}
	ctr := vUint32("ctr")
	vAssume(ctr < 0xfffffff0)
	firstDone := vBool("firstDone")
	vAssume(vImplies(ctr != 0, firstDone))
	dS := vBlob("digestS", 32)
	dR := vBlob("digestR", 32)
	s.encryptCounter = ctr
	s.finishedSendAAD = firstDone
	s.finalSendDigest = dS
	s.finalRecvDigest = dR
	iv := s.encryptIV
	n1 := vInt("n1")
	n2 := vInt("n2")
	vAssume(n1 >= 1 && n1 <= 64 && n2 >= 1 && n2 <= 64)
	d1 := vBlob("d1", n1)
	d2 := vBlob("d2", n2)
	err1 := s.sendMessageWithEnd(vhCtx, d1, 1)
	vAssert(err1 != nil, "failed-write-is-reported")
	if len(sc.outs) != 1 {
		vAssert(false, "failed-frame-left-bytes-on-the-wire")
		return
	}
	if s.sendMessageWithEnd(vhCtx, d2, 1) != nil {
		return // giving up on the stream is fine
	}
	vCover("sent-again-after-a-failed-write")
	vAssert(len(sc.outs) == 2, "one-write-per-frame")
	if len(sc.outs) != 2 {
		return
	}
	w := sc.outs[1]
	if len(w) < 5+16 {
		vAssert(false, "second-frame-is-a-protected-frame")
		return
	}
	body := w[5:]
	// the failed frame was sealed under the nonce of counter ctr; the next frame must
	// open at counter ctr+1 (an ordinary, non-first frame) -- which it cannot if it
	// was sealed under the failed frame's nonce again
	pt, oerr := vhAEAD(key).Open(nil, vhSpecNonce(iv, ctr+1), body, vhSpecAAD(false, dS, dR, w[:5]))
	vAssert(oerr == nil, "frame-after-a-failed-write-uses-the-next-nonce-not-the-same-one")
	if oerr == nil {
		vAssertBytesEqual(pt, d2, "independent-decoder-recovers-plaintext")
	}
}

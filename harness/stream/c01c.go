package stream

import "os"

func init() {
	vRegister("VH_C01_FileTransfer", VH_C01_FileTransfer)
}

// VH_C01_FileTransfer: a file of any size 0..150000 bytes (up to three 64 KiB
// chunks) sent by the real PutFile and received by the real GetFile, plain or
// AES-GCM from an arbitrary mirrored state, followed by an ordinary message:
// both report the file's size, the received file is byte-identical, and the
// message after the transfer is the next thing the receiver reads (file contents
// live in the engine's filesystem model; natively in a scratch directory).
//
//verif:unwind 12
func VH_C01_FileTransfer() {
	sc, rc := &vhConn{}, &vhConn{}
	var s, r *Stream
	if vBool("keyed") {
		s, r = vhKeyedPair(sc, rc, "")
		vAssume(s.encryptCounter < 1<<31)
	} else {
		s, r = vhNewStream(sc), vhNewStream(rc)
	}
	dir, derr := os.MkdirTemp("/tmp", "vhfile")
	if derr != nil {
		vAssume(false)
	}
	defer os.RemoveAll(dir)
	n := vInt("n")
	vAssume(n >= 0 && n <= 150000)
	content := vBlob("content", n)
	if os.WriteFile(dir+"/src", content, 0o600) != nil {
		vAssume(false)
	}
	sent, err := s.PutFile(vhCtx, dir+"/src")
	vAssert(err == nil && sent == int64(n), "sender-reports-the-files-size")
	if err != nil {
		return
	}
	after := vBlob("after", 3)
	if s.SendMessage(vhCtx, after) != nil {
		vAssume(false)
	}
	rc.feed(sc.outs...)
	got, rerr := r.GetFile(vhCtx, dir+"/dst")
	vAssert(rerr == nil, "receiver-accepts-what-sender-sent")
	if rerr != nil {
		return
	}
	vAssert(got == int64(n), "receiver-reports-the-files-size")
	data, ferr := os.ReadFile(dir + "/dst")
	vAssert(ferr == nil && len(data) == n, "received-file-has-the-files-size")
	if ferr == nil && len(data) == n && n > 0 {
		vAssertBytesEqual(data, content, "payload-identical")
	}
	next, nerr := r.ReceiveFrame(vhCtx)
	vAssert(nerr == nil && len(next) == 3, "message-after-the-transfer-is-the-next-thing-read")
	if nerr == nil && len(next) == 3 {
		vAssertBytesEqual(next, after, "message-after-the-transfer-is-the-next-thing-read")
	}
	vCover("file-roundtrip")
}

package stream

func init() {
	vRegister("VH_C01_FrameStep", VH_C01_FrameStep)
}

// VH_C01_FrameStep: one frame of symbolic size 0..4 MiB sent by the real
// sendMessageWithEnd and read back by the real ReceiveFrameWithEnd, plain or
// AES-GCM, from an arbitrary mirrored stream state. A frame the sender accepts
// must be accepted by the receiver and come back byte-identical with its flag.
func VH_C01_FrameStep() {
	mode := vChoice("mode", 3) // 0 plain, 1 keyed and encrypting, 2 keyed with crypto mode switched off on both sides
	enc := mode == 1
	n := vInt("n")
	vAssume(n >= 0)
	vAssume(n <= 1<<22)
	d := vBlob("d", n)
	end := vByte("end")
	vAssume(end <= 1)
	sc := &vhConn{}
	rc := &vhConn{}
	var s, r *Stream
	if mode >= 1 {
		s, r = vhKeyedPair(sc, rc, "")
		if mode == 2 {
			s.SetCryptoMode(false)
			r.SetCryptoMode(false)
		}
	} else {
		s, r = vhNewStream(sc), vhNewStream(rc)
	}
	c0 := s.encryptCounter
	err := s.sendMessageWithEnd(vhCtx, d, end)
	if err != nil {
		vCover("sender-rejects")
		vAssert(len(sc.outs) == 0, "rejected-frame-emits-nothing")
		// a refused send is not part of the sequence: the caller carries on (say with
		// smaller pieces) and the next frame the sender accepts must still arrive
		n2 := vInt("n2")
		vAssume(n2 >= 0 && n2 <= 64)
		d2 := vBlob("d2", n2)
		if err2 := s.sendMessageWithEnd(vhCtx, d2, end); err2 != nil {
			return // e.g. the frame counter is exhausted: refused for good
		}
		vAssert(len(sc.outs) == 1, "one-write-per-frame")
		rc.feed(sc.outs[0])
		out2, flag2, rerr2 := r.ReceiveFrameWithEnd(vhCtx)
		vAssert(rerr2 == nil, "receiver-accepts-the-frame-after-a-refused-send")
		if rerr2 == nil {
			vAssert(flag2 == end, "end-flag-preserved")
			vAssertBytesEqual(out2, d2, "payload-identical")
			vCover("roundtrip-after-refusal")
		}
		return
	}
	vTag("plain_len", n)
	vAssert(len(sc.outs) == 1, "one-write-per-frame")
	vTag("wire_len", len(sc.outs[0])-5)
	rc.feed(sc.outs[0])
	var out []byte
	var rerr error
	flag := end
	if vBool("withEnd") {
		out, flag, rerr = r.ReceiveFrameWithEnd(vhCtx)
	} else {
		out, rerr = r.ReceiveFrame(vhCtx)
	}
	vAssert(rerr == nil, "receiver-accepts-what-sender-sent")
	if rerr != nil {
		return
	}
	vAssert(flag == end, "end-flag-preserved")
	vAssertBytesEqual(out, d, "payload-identical")
	vAssert(rc.drained(), "receiver-consumed-exactly-the-frame")
	if enc {
		vAssert(s.encryptCounter == c0+1, "send-counter-advanced")
		vAssert(r.decryptCounter == s.encryptCounter, "counters-mirrored-after-step")
		vAssert(r.decryptIV == s.encryptIV, "receiver-knows-iv-after-step")
		vAssert(s.finishedSendAAD && r.finishedRecvAAD, "first-frame-flags-set")
		vCover("roundtrip-encrypted")
	} else if mode == 2 {
		vAssert(s.encryptCounter == c0 && r.decryptCounter == c0, "cleartext-frame-leaves-counters-alone")
		vCover("roundtrip-keyed-cleartext")
	} else {
		vCover("roundtrip-plain")
	}
}

package stream

import "sync"

func init() {
	vRegister("VH_C17_StreamDuplex", VH_C17_StreamDuplex)
}

// VH_C17_StreamDuplex: on an established stream -- cleartext or keyed, with the
// first protected frame of either direction already exchanged or not -- one send
// and one receive touch disjoint state: no location written by one is accessed by
// the other (there is no lock on a stream, so every shared location must be
// read-only for both). The engine runs the send and the receive one after the
// other with access logging; the native replay runs them in two goroutines under
// the race detector.
//
//verif:race
func VH_C17_StreamDuplex() {
	c := &vhConn{}
	s := vhNewStream(c)
	keyed := vBool("keyed")
	key := vBlob("key", 32)
	var iv [16]byte
	copy(iv[:], vBlob("iv", 16))
	ctr := uint32(0)
	firstRecvDone := false
	if keyed {
		if s.SetSymmetricKey(key) != nil {
			vAssume(false)
		}
		vAssume(iv != s.encryptIV) // the two directions' base IVs are distinct
		if vBool("sentBefore") {
			if s.sendMessageWithEnd(vhCtx, []byte("hello"), 1) != nil {
				vAssume(false)
			}
		}
		if vBool("recvBefore") {
			hdr := []byte{1, 0, 0, 0, 16 + 2 + 16}
			ct := vhAEAD(key).Seal(nil, vhSpecNonce(iv, 0), []byte("hi"), vhSpecAAD(true, s.finalRecvDigest, s.finalSendDigest, hdr))
			c.feed(hdr, iv[:], ct)
			if _, _, err := s.ReceiveFrameWithEnd(vhCtx); err != nil {
				vAssume(false)
			}
			ctr, firstRecvDone = 1, true
		}
	}
	// the frame the peer sends next
	n := vInt("n")
	vAssume(n >= 0 && n <= 4)
	pd := vBlob("pd", n)
	if keyed {
		vAssume(n > 0)
		L := n + 16
		if ctr == 0 {
			L += 16
		}
		hdr := []byte{1, 0, 0, 0, byte(L)}
		ct := vhAEAD(key).Seal(nil, vhSpecNonce(iv, ctr), pd, vhSpecAAD(!firstRecvDone, s.finalRecvDigest, s.finalSendDigest, hdr))
		if ctr == 0 {
			c.feed(hdr, iv[:], ct)
		} else {
			c.feed(hdr, ct)
		}
	} else {
		c.feed([]byte{1, 0, 0, 0, byte(n)}, pd)
	}
	m := vInt("m")
	vAssume(m >= 0 && m <= 4)
	sd := vBlob("sd", m)
	partial := vBool("partial")
	withEnd := vBool("withEnd")
	var got []byte
	var rerr, serr error
	send := func() {
		if partial {
			serr = s.SendPartialMessage(vhCtx, sd)
		} else {
			serr = s.SendMessage(vhCtx, sd)
		}
	}
	recv := func() {
		if withEnd {
			got, _, rerr = s.ReceiveFrameWithEnd(vhCtx)
		} else {
			got, rerr = s.ReceiveFrame(vhCtx)
		}
	}
	if vIsNative() {
		var wg sync.WaitGroup
		wg.Add(2)
		go func() { defer wg.Done(); send() }()
		go func() { defer wg.Done(); recv() }()
		wg.Wait()
	} else {
		vTrackBegin(0)
		send()
		vTrackEnd()
		vTrackBegin(1)
		recv()
		vTrackEnd()
	}
	vAssertNoLocksetConflict(0, 1, "send-and-receive-state-disjoint")
	vAssert(serr == nil && rerr == nil, "both-directions-succeed")
	if rerr == nil {
		vAssertBytesEqual(got, pd, "received-payload")
	}
	if keyed {
		vCover("keyed-duplex")
	} else {
		vCover("cleartext-duplex")
	}
}

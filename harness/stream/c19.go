package stream

import (
	"context"
	"errors"
	"io"
	"time"
)

func init() {
	vRegister("VH_C19_Read", VH_C19_Read)
	vRegister("VH_C19_Write", VH_C19_Write)
	vRegister("VH_C19_FrameOps", VH_C19_FrameOps)
}

// vhCancelCtx is a context whose cancellation the harness fires at a point of
// its choosing. It implements the AfterFunc hook the context package offers to
// foreign context types, so context.AfterFunc(ctx, f) registers f here.
type vhCancelCtx struct {
	done    chan struct{}
	hasDone bool
	err     error
	cbs     []func()
	live    []bool
}

func (c *vhCancelCtx) Deadline() (time.Time, bool) { return time.Time{}, false }
func (c *vhCancelCtx) Value(key any) any           { return nil }
func (c *vhCancelCtx) Err() error                  { return c.err }
func (c *vhCancelCtx) Done() <-chan struct{} {
	if !c.hasDone {
		return nil
	}
	return c.done
}
func (c *vhCancelCtx) AfterFunc(f func()) func() bool {
	i := len(c.cbs)
	c.cbs = append(c.cbs, f)
	c.live = append(c.live, true)
	return func() bool {
		was := c.live[i]
		c.live[i] = false
		return was
	}
}
func (c *vhCancelCtx) fire() {
	if c.err != nil {
		return
	}
	c.err = context.Canceled
	close(c.done)
	for i, f := range c.cbs {
		if c.live[i] {
			c.live[i] = false
			f()
		}
	}
}

var vhErrClosedConn = errors.New("use of closed network connection")
var vhErrIO = errors.New("connection reset by peer")

// vhBlockingConn: a read or write either completes, fails, or stalls; a stalled
// call returns only once the connection has been closed. The harness may fire
// the cancellation while the call is in progress.
type vhBlockingConn struct {
	vhConn
	halfClosed bool
	ctx        *vhCancelCtx
	stall      bool
	fireInIO   bool
	ioFails    bool
	hung       bool
	calls      int
	payload    []byte
}

func (c *vhBlockingConn) Read(p []byte) (int, error) {
	c.calls++
	if c.fireInIO {
		c.ctx.fire()
	}
	if c.closed {
		return 0, vhErrClosedConn
	}
	if c.stall {
		c.hung = true // nothing will ever unblock this call
		return 0, vhErrClosedConn
	}
	if c.ioFails {
		return 0, vhErrIO
	}
	n := copy(p, c.payload)
	if n < len(p) {
		return n, io.EOF
	}
	return n, nil
}

func (c *vhBlockingConn) Write(p []byte) (int, error) {
	c.calls++
	if c.fireInIO {
		c.ctx.fire()
	}
	if c.closed {
		return 0, vhErrClosedConn
	}
	if c.stall {
		c.hung = true
		return 0, vhErrClosedConn
	}
	if c.ioFails {
		return 0, vhErrIO
	}
	return len(p), nil
}

func vhCancelSetup() (*vhBlockingConn, *vhCancelCtx, *Stream, int) {
	ctx := &vhCancelCtx{done: make(chan struct{}), hasDone: vBool("cancellable")}
	conn := &vhBlockingConn{ctx: ctx}
	conn.payload = vBlob("payload", 8)
	mode := vChoice("mode", 4) // 0 cancelled before, 1 cancelled during, 2 never cancelled, 3 stalls until cancelled
	conn.ioFails = vBool("io_fails")
	s := &Stream{conn: conn, reader: conn, writer: conn}
	if !ctx.hasDone {
		vAssume(mode == 2) // a context that can never be cancelled
	}
	switch mode {
	case 0:
		ctx.fire()
	case 1:
		conn.fireInIO = true
	case 3:
		conn.fireInIO = true
		conn.stall = true
	}
	return conn, ctx, s, mode
}

// VH_C19_Read: readWithContext under every cancellation timing (before the
// call, while the read is blocked, never) and both outcomes of the I/O: once
// the context is cancelled the call returns (a stalled read is unblocked by the
// connection being closed) with the context's own error and the connection
// closed; a context that is never cancelled - or cannot be - adds no failure
// mode: the result is exactly the I/O's.
func VH_C19_Read() {
	conn, ctx, s, mode := vhCancelSetup()
	buf := make([]byte, 8)
	err := s.readWithContext(ctx, buf)
	vAssert(!conn.hung, "a-stalled-read-is-unblocked")
	switch mode {
	case 0:
		vCover("cancelled-before")
		vAssert(err == context.Canceled, "returns-the-contexts-error")
		vAssert(conn.calls == 0, "no-io-after-cancellation")
	case 1, 3:
		vCover("cancelled-during")
		vAssert(err == context.Canceled, "returns-the-contexts-error")
		vAssert(conn.closed, "connection-closed-on-cancellation")
	case 2:
		vCover("not-cancelled")
		vAssert(!conn.closed, "no-close-without-cancellation")
		if conn.ioFails {
			vAssert(err == vhErrIO, "io-error-passed-through")
		} else {
			vAssert(err == nil, "no-added-failure-mode")
			vAssertBytesEqual(buf, conn.payload, "data-delivered")
		}
	}
}

// VH_C19_Write: the same for writeWithContext.
func VH_C19_Write() {
	conn, ctx, s, mode := vhCancelSetup()
	err := s.writeWithContext(ctx, conn.payload)
	vAssert(!conn.hung, "a-stalled-write-is-unblocked")
	switch mode {
	case 0:
		vCover("cancelled-before")
		vAssert(err == context.Canceled, "returns-the-contexts-error")
		vAssert(conn.calls == 0, "no-io-after-cancellation")
	case 1, 3:
		vCover("cancelled-during")
		vAssert(err == context.Canceled, "returns-the-contexts-error")
		vAssert(conn.closed, "connection-closed-on-cancellation")
	case 2:
		vCover("not-cancelled")
		vAssert(!conn.closed, "no-close-without-cancellation")
		if conn.ioFails {
			vAssert(err == vhErrIO, "io-error-passed-through")
		} else {
			vAssert(err == nil, "no-added-failure-mode")
		}
	}
}

// vhStallConn serves a scripted byte stream like vhConn, except that its k-th
// Read or Write call (k = stallAt) stalls: the context is cancelled while that
// call is blocked, and the call returns only if that closed the connection.
type vhStallConn struct {
	vhConn
	halfClosed bool
	ctx        *vhCancelCtx
	stallAt    int
	calls      int
	hung       bool
}

func (c *vhStallConn) block() {
	c.ctx.fire()
	// natively the context package runs an AfterFunc callback on a goroutine of its
	// own: give it a moment (in the engine a go statement runs to completion at
	// once and Sleep is a no-op)
	for i := 0; vIsNative() && i < 5000 && !c.isClosed(); i++ {
		time.Sleep(100 * time.Microsecond)
	}
	if !c.isClosed() {
		c.hung = true // nobody is watching the context for this call
	}
}

//go:noinline
func (c *vhStallConn) isClosed() bool { return c.closed }

func (c *vhStallConn) Read(p []byte) (int, error) {
	c.calls++
	if c.calls == c.stallAt {
		c.block()
		return 0, vhErrClosedConn
	}
	if c.closed {
		return 0, vhErrClosedConn
	}
	return c.vhConn.Read(p)
}

// CloseWrite: like a TCP or Unix socket, the harness connections can shut down their
// sending half only. That does not close the connection (reads still work): code
// that answers a cancellation with a half-close has left the connection half-used.
func (c *vhStallConn) CloseWrite() error    { c.halfClosed = true; return nil }
func (c *vhBlockingConn) CloseWrite() error { c.halfClosed = true; return nil }

func (c *vhStallConn) Write(p []byte) (int, error) {
	c.calls++
	if c.calls == c.stallAt {
		c.block()
		return 0, vhErrClosedConn
	}
	if c.closed {
		return 0, vhErrClosedConn
	}
	return c.vhConn.Write(p)
}

// VH_C19_FrameOps: every blocking connection call made by the frame operations
// (header read, payload read, frame write; plain and keyed) is interruptible: the
// peer stalls at the k-th call, the context ends while that call is blocked, and
// the operation returns the context's error with the connection closed. When the
// peer never stalls the operation completes normally.
func VH_C19_FrameOps() {
	ctx := &vhCancelCtx{done: make(chan struct{}), hasDone: true}
	conn := &vhStallConn{ctx: ctx}
	var s, peer *Stream
	pc := &vhConn{}
	keyed := vBool("keyed")
	if keyed {
		peer, s = vhKeyedPair(pc, &vhConn{}, "")
	} else {
		peer, s = vhNewStream(pc), vhNewStream(&vhConn{})
	}
	s.conn, s.reader, s.writer = conn, conn, conn
	n := vInt("n")
	vAssume(n >= 1 && n <= 6)
	d := vBlob("d", n)
	if peer.sendMessageWithEnd(vhCtx, d, 1) != nil {
		vAssume(false)
	}
	w := pc.outs[0]
	conn.feed(w[:5], w[5:])              // header and body arrive separately
	conn.stallAt = vChoice("stallAt", 4) // 0: never
	op := vChoice("op", 3)
	var err error
	switch op {
	case 0:
		_, err = s.ReceiveFrame(ctx)
	case 1:
		_, _, err = s.ReceiveFrameWithEnd(ctx)
	case 2:
		err = s.SendMessage(ctx, d)
	}
	vAssert(!conn.hung, "every-blocking-call-watches-the-context")
	if conn.stallAt != 0 && conn.calls >= conn.stallAt {
		vCover("stalled-and-cancelled")
		vAssert(err != nil && errors.Is(err, context.Canceled), "returns-the-contexts-error")
		vAssert(conn.closed, "connection-closed-on-cancellation")
	} else {
		vCover("never-stalled")
		vAssert(err == nil, "completes-when-the-peer-does-not-stall")
		vAssert(!conn.closed, "no-close-without-cancellation")
	}
}

package stream

import "bytes"

func init() {
	vRegister("VH_C06_ReplayedConnection", VH_C06_ReplayedConnection)
}

// VH_C06_ReplayedConnection: the stream-side half of "a replay of a recorded
// resumed connection gets no byte accepted". Connection 1 is an honest resumed
// connection: the client sends its request in the clear, reads the server's
// cleartext reply (possibly none), installs the session key and sends one
// protected frame. Connection 2 is a fresh server-side stream of the same session
// (same key) that has been sent the same request bytes and has answered with an
// arbitrary reply of its own; it is then fed the protected frame recorded on
// connection 1. The frame must be rejected. It is rejected whenever connection 2's
// reply differs from connection 1's in any byte (the handshake digests bind the
// transcript); when the reply repeats -- which VH_C06_ServerResume shows is what
// handleSessionResumption does -- nothing distinguishes the two connections.
func VH_C06_ReplayedConnection() {
	key := vBlob("key", 32)
	const nq, nr = 3, 3 // contents arbitrary; the lengths play no role
	req := vBlob("req", nq)
	hasReply := vBool("hasReply")
	rep1 := vBlob("rep1", nr)
	rep2 := vBlob("rep2", nr)
	// connection 1, client side
	cc := &vhConn{}
	c1 := vhNewStream(cc)
	if c1.sendMessageWithEnd(vhCtx, req, 1) != nil {
		vAssume(false)
	}
	if hasReply {
		cc.feed([]byte{1, 0, 0, 0, byte(nr)}, rep1)
		if _, _, err := c1.ReceiveFrameWithEnd(vhCtx); err != nil {
			vAssume(false)
		}
	}
	if c1.SetSymmetricKey(key) != nil {
		vAssume(false)
	}
	d := vBlob("d", 3)
	mark := len(cc.outs)
	if c1.sendMessageWithEnd(vhCtx, d, 1) != nil {
		vAssume(false)
	}
	recorded := cc.outs[mark]
	// connection 2, server side, same session
	sc := &vhConn{}
	s2 := vhNewStream(sc)
	sc.feed(cc.outs[0])
	if _, _, err := s2.ReceiveFrameWithEnd(vhCtx); err != nil {
		vAssume(false)
	}
	same := 1
	if hasReply {
		if s2.sendMessageWithEnd(vhCtx, rep2, 1) != nil {
			vAssume(false)
		}
		if !bytes.Equal(rep1, rep2) {
			same = 0
		}
	}
	vTag("sameReply", same)
	if s2.SetSymmetricKey(key) != nil {
		vAssume(false)
	}
	if same == 0 {
		// collision resistance of SHA-256 (an axiom of the hash model): different
		// reply bytes give digests that differ somewhere
		i := vInt("i")
		vAssume(i >= 0 && i < 32)
		vAssume(c1.finalRecvDigest[i] != s2.finalSendDigest[i])
	}
	sc.feed(recorded)
	out, _, err := s2.ReceiveFrameWithEnd(vhCtx)
	if same == 0 {
		vCover("reply-differs")
		vAssert(err != nil, "recorded-frame-rejected-when-the-transcripts-differ")
		return
	}
	vCover("reply-repeats")
	vAssert(err != nil, "frame-recorded-on-an-earlier-connection-of-the-session-rejected")
	_ = out
}

package stream

func init() {
	vRegister("VH_C02_SecretKeepsProtection", VH_C02_SecretKeepsProtection)
}

// VH_C02_SecretKeepsProtection: handling a secret (PutSecret, GetSecret, or the
// exported prepare/restore pair the message layer uses around an in-band secret)
// never weakens the stream: whatever the mode was before -- unkeyed, keyed and
// encrypting, keyed with encryption switched off -- it is the same afterwards, so
// an encrypting receiver still rejects a frame it cannot authenticate, and the
// secret itself travels protected whenever a key is installed.
//
//verif:unwind 8
func VH_C02_SecretKeepsProtection() {
	sc := &vhConn{}
	s := vhNewStream(sc)
	mode := vChoice("mode", 3) // 0 unkeyed, 1 keyed and encrypting, 2 keyed with encryption off
	if mode >= 1 {
		if s.SetSymmetricKey(vBlob("key", 32)) != nil {
			vAssume(false)
		}
		if mode == 2 {
			s.SetCryptoMode(false)
		}
		// a handshake preceded the key: the two directions' digests differ somewhere
		// (otherwise the stream's own first frame, reflected, would be a valid frame
		// for the other direction)
		dS, dR := vBlob("digestS", 32), vBlob("digestR", 32)
		i := vInt("i")
		vAssume(i >= 0 && i < 32)
		vAssume(dS[i] != dR[i])
		s.finalSendDigest, s.finalRecvDigest = dS, dR
	}
	before := s.encrypted
	switch vChoice("op", 3) {
	case 0:
		if s.PutSecret(vhCtx, "s3cret") != nil {
			vAssume(false)
		}
		if mode >= 1 {
			vAssert(len(sc.outs) >= 1 && len(sc.outs[len(sc.outs)-1]) > 5+6+16, "secret-frame-is-sealed-when-a-key-is-installed")
		}
	case 1:
		sc.feed([]byte{1, 0, 0, 0, 2}, []byte("x\x00"))
		_, _ = s.GetSecret(vhCtx) // whatever the outcome
	case 2:
		s.PrepareCryptoForSecret()
		vAssert(s.encrypted == (mode >= 1), "secrets-are-handled-encrypted-whenever-a-key-is-installed")
		s.RestoreCryptoAfterSecret()
	}
	vAssert(s.encrypted == before, "secret-handling-leaves-the-mode-as-it-was")
	if mode == 1 {
		vCover("encrypting-stream")
		// the receiver still authenticates: a cleartext frame is not accepted
		n := vInt("n")
		vAssume(n >= 0 && n <= 40)
		sc.feed([]byte{vByte("flag"), 0, 0, 0, byte(n)}, vBlob("forged", n))
		_, _, err := s.ReceiveFrameWithEnd(vhCtx)
		vAssert(err != nil, "unauthenticated-frame-still-rejected-after-a-secret")
	} else {
		vCover("not-encrypting")
	}
}

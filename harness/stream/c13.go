package stream

func init() {
	vRegister("VH_C13_FrameBytes", VH_C13_FrameBytes)
	vRegister("VH_C13_FrameBytesWithEnd", VH_C13_FrameBytesWithEnd)
}

// VH_C13_FrameBytes / VH_C13_FrameBytesWithEnd: the framing level of C13. A keyed
// receiver at any position of an honest frame sequence (including before its first
// protected frame) is handed any 5-byte header and any body up to 1 MiB by the
// peer: every index, slice bound, conversion and allocation size inside
// ReceiveFrame / ReceiveFrameWithEnd and the decryption path is an obligation (no
// panic), and malformed input yields an error. (Same harness bodies as
// VH_C02_ForgedFrame*, whose acceptance assertions come along.)
func VH_C13_FrameBytes() { VH_C02_ForgedFrame() }

// VH_C13_FrameBytesWithEnd: see VH_C13_FrameBytes.
func VH_C13_FrameBytesWithEnd() { VH_C02_ForgedFrameWithEnd() }

package stream

func init() {
	vRegister("VH_C15_RoundTrip", VH_C15_RoundTrip)
	vRegister("VH_C15_Refuse", VH_C15_Refuse)
	vRegister("VH_C15_Reject", VH_C15_Reject)
	vRegister("VH_C15_RefuseMidMessage", VH_C15_RefuseMidMessage)
}

// vhExportable builds a stream in an arbitrary state that satisfies the export
// preconditions.
func vhExportable(sc *vhConn) (*Stream, []byte) {
	s := vhNewStream(sc)
	key := vBlob("key", 32)
	if s.SetSymmetricKey(key) != nil {
		vAssume(false)
	}
	copy(s.encryptIV[:], vBlob("eiv", 16))
	copy(s.decryptIV[:], vBlob("div", 16))
	s.encryptCounter = vUint32("ec")
	s.decryptCounter = vUint32("dc")
	s.finishedSendAAD = true
	s.finishedRecvAAD = true
	s.sendDigestWritten = vBool("sdw")
	s.recvDigestWritten = vBool("rdw")
	s.authenticated = vBool("auth")
	if vBool("hasDigests") {
		s.finalSendDigest = vBlob("fsd", 32)
		s.finalRecvDigest = vBlob("frd", 32)
	} else {
		s.finalSendDigest = nil
		s.finalRecvDigest = nil
	}
	s.peerAddr = vString("peer", 8)
	return s, key
}

// VH_C15_RoundTrip: export from any exportable state, import around another
// connection: every field the send/receive paths read agrees, and an untouched
// peer keeps exchanging protected frames with the imported stream in both
// directions (so the step is inductive over successive hand-offs).
func VH_C15_RoundTrip() {
	s, key := vhExportable(&vhConn{})
	blob, err := s.ExportCryptoState()
	vAssert(err == nil, "export-succeeds-when-clean")
	if err != nil {
		return
	}
	tc := &vhConn{}
	t, err := NewStreamWithCryptoState(tc, blob)
	vAssert(err == nil, "import-accepts-exported-blob")
	if err != nil {
		return
	}
	// the importer owns its state: scrubbing (or reusing) the blob buffer after
	// the import must not reach into the imported stream
	copy(blob, make([]byte, len(blob)))
	vAssert(t.gcm != nil && t.encrypted, "imported-stream-encrypting")
	vAssertBytesEqual(t.encryptKey, s.encryptKey, "key")
	vAssert(t.encryptIV == s.encryptIV && t.decryptIV == s.decryptIV, "ivs")
	vAssert(t.encryptCounter == s.encryptCounter && t.decryptCounter == s.decryptCounter, "counters")
	vAssert(t.finishedSendAAD && t.finishedRecvAAD, "first-frame-flags")
	vAssert(t.sendDigestWritten == s.sendDigestWritten && t.recvDigestWritten == s.recvDigestWritten, "digest-written-flags")
	vAssert(t.authenticated == s.authenticated, "authenticated-flag")
	vAssertBytesEqual(t.finalSendDigest, s.finalSendDigest, "send-digest")
	vAssertBytesEqual(t.finalRecvDigest, s.finalRecvDigest, "recv-digest")
	vAssert(t.peerAddr == s.peerAddr || len(s.peerAddr) == 0, "peer-address")
	vAssert(!t.inMessage && t.bytesRead == 0 && len(t.receiveBuffer) == 0 && len(t.sendBuffer) == 0 && !t.sendEOM, "imported-stream-at-clean-boundary")

	// the untouched peer of the original stream
	pc := &vhConn{}
	p := vhNewStream(pc)
	if p.SetSymmetricKey(key) != nil {
		vAssume(false)
	}
	p.encryptIV = s.decryptIV
	p.decryptIV = s.encryptIV
	p.encryptCounter = s.decryptCounter
	p.decryptCounter = s.encryptCounter
	p.finishedSendAAD = true
	p.finishedRecvAAD = true
	vAssume(s.encryptCounter != 0xffffffff && s.decryptCounter != 0xffffffff)
	vAssume(s.encryptCounter != 0 && s.decryptCounter != 0) // both directions have exchanged a protected frame
	n := vInt("n")
	vAssume(n >= 0 && n <= 4096)
	d := vBlob("d", n)
	// imported stream -> peer
	if t.sendMessageWithEnd(vhCtx, d, 1) != nil {
		vAssert(false, "imported-stream-can-send")
		return
	}
	pc.feed(tc.outs[0])
	got, fl, rerr := p.ReceiveFrameWithEnd(vhCtx)
	vAssert(rerr == nil, "peer-accepts-frame-from-imported-stream")
	if rerr != nil {
		return
	}
	vAssert(fl == 1, "flag")
	vAssertBytesEqual(got, d, "peer-reads-what-imported-stream-sent")
	// peer -> imported stream
	if p.sendMessageWithEnd(vhCtx, d, 0) != nil {
		vAssert(false, "peer-can-send")
		return
	}
	tc.feed(pc.outs[0])
	got2, fl2, rerr2 := t.ReceiveFrameWithEnd(vhCtx)
	vAssert(rerr2 == nil, "imported-stream-accepts-frame-from-peer")
	if rerr2 != nil {
		return
	}
	vAssert(fl2 == 0, "flag2")
	vAssertBytesEqual(got2, d, "imported-stream-reads-what-peer-sent")
	// the imported stream is exportable again (induction over hand-offs)
	blob2, err3 := t.ExportCryptoState()
	vAssert(err3 == nil, "re-exportable-after-exchange")
	if err3 == nil {
		u, err4 := NewStreamWithCryptoState(&vhConn{}, blob2)
		vAssert(err4 == nil, "second-hand-off-imports")
		if err4 == nil {
			vAssertBytesEqual(u.encryptKey, key, "second-hand-off-carries-the-session-key")
			vAssert(u.encryptCounter == t.encryptCounter && u.decryptCounter == t.decryptCounter, "second-hand-off-carries-the-counters")
		}
	}
	vCover("handoff-continues-session")
}

// VH_C15_Refuse: export fails exactly when the stream is not encrypted, has no
// key, has not exchanged a protected frame both ways, or holds a partially sent
// or partially consumed message.
func VH_C15_Refuse() {
	s := vhNewStream(&vhConn{})
	hasKey := vBool("hasKey")
	if hasKey {
		if s.SetSymmetricKey(vBlob("key", 32)) != nil {
			vAssume(false)
		}
	}
	s.encrypted = vBool("encrypted")
	s.finishedSendAAD = vBool("fs")
	s.finishedRecvAAD = vBool("fr")
	s.inMessage = vBool("inMessage")
	s.bytesRead = vInt("bytesRead")
	rb := vInt("rbuf")
	vAssume(rb >= 0 && rb <= 64)
	sb := vInt("sbuf")
	vAssume(sb >= 0 && sb <= 64)
	if rb > 0 {
		s.receiveBuffer = vBlob("rb", rb)
	}
	if sb > 0 {
		s.sendBuffer = vBlob("sb", sb)
	}
	s.sendEOM = vBool("sendEOM")
	s.sendPartial = vBool("sendPartial")
	blob, err := s.ExportCryptoState()
	mustRefuse := !s.encrypted || !hasKey || !s.finishedSendAAD || !s.finishedRecvAAD ||
		s.inMessage || s.bytesRead != 0 || rb != 0 || sb != 0 || s.sendEOM || s.sendPartial
	if err != nil {
		vCover("export-refused")
		vAssert(mustRefuse, "export-refused-only-when-unclean")
		vAssert(blob == nil, "no-blob-on-refusal")
	} else {
		vCover("export-allowed")
		vAssert(!mustRefuse, "export-allowed-only-when-clean")
	}
}

// VH_C15_Reject: every strict prefix of a valid blob, a wrong magic byte and a
// wrong version are rejected with an error.
func VH_C15_Reject() {
	s, _ := vhExportable(&vhConn{})
	blob, err := s.ExportCryptoState()
	if err != nil {
		vAssume(false)
	}
	switch vChoice("mutation", 3) {
	case 0:
		k := vInt("cut")
		vAssume(k >= 0 && k < len(blob))
		_, ierr := NewStreamWithCryptoState(&vhConn{}, blob[:k])
		vAssert(ierr != nil, "truncated-blob-rejected")
		vCover("truncated")
	case 1:
		i := vInt("magicIdx")
		vAssume(i >= 0 && i < 4)
		b := vByte("magicByte")
		vAssume(b != blob[i])
		blob[i] = b
		_, ierr := NewStreamWithCryptoState(&vhConn{}, blob)
		vAssert(ierr != nil, "bad-magic-rejected")
		vCover("bad-magic")
	case 2:
		v := vUint16("version")
		vAssume(v != 1)
		blob[4] = byte(v >> 8)
		blob[5] = byte(v)
		_, ierr := NewStreamWithCryptoState(&vhConn{}, blob)
		vAssert(ierr != nil, "wrong-version-rejected")
		vCover("wrong-version")
	}
}

// VH_C15_RefuseMidMessage: export is refused while a message is partially sent
// or partially consumed, whatever the history that led there - including an
// outbound message whose buffered part has already been flushed as a partial
// frame (nothing left in the send buffer, end of message not yet signalled).
//
//verif:unwind 6
func VH_C15_RefuseMidMessage() {
	sc := &vhConn{}
	s, _ := vhExportable(sc)
	vAssume(s.encryptCounter < 0xfffffff0)
	switch vChoice("history", 5) {
	case 3:
		// a partial frame sent directly (SendPartialMessage is what the typed message
		// layer uses for every frame but the last of a multi-frame message)
		if s.SendPartialMessage(vhCtx, vBlob("p", 5)) != nil {
			vAssume(false)
		}
		_, err := s.ExportCryptoState()
		vAssert(err != nil, "export-refused-after-a-directly-sent-partial-frame")
		if s.SendMessage(vhCtx, vBlob("q", 5)) != nil {
			vAssume(false)
		}
		_, err2 := s.ExportCryptoState()
		vAssert(err2 == nil, "export-allowed-once-the-message-is-completed")
		vCover("mid-send-direct")
	case 4:
		if s.WriteFrame(vhCtx, vBlob("p", 5), false) != nil {
			vAssume(false)
		}
		_, err := s.ExportCryptoState()
		vAssert(err != nil, "export-refused-after-a-directly-sent-partial-frame")
		vCover("mid-send-writeframe")
	case 0:
		// outbound message in progress: the first write was large enough to be flushed
		s.StartMessage()
		n := vInt("n")
		vAssume(n >= 1 && n <= 6000)
		if s.WriteMessage(vhCtx, vBlob("w", n)) != nil {
			vAssume(false)
		}
		_, err := s.ExportCryptoState()
		vAssert(err != nil, "export-refused-while-an-outbound-message-is-open")
		vCover("mid-send")
	case 1:
		// complete outbound message: export allowed again after EndMessage + StartMessage
		s.StartMessage()
		if s.WriteMessage(vhCtx, vBlob("w", 10)) != nil || s.EndMessage(vhCtx) != nil {
			vAssume(false)
		}
		s.StartMessage()
		_, err := s.ExportCryptoState()
		vAssert(err == nil, "export-allowed-at-a-message-boundary")
		vCover("after-send")
	case 2:
		vCover("untouched")
		_, err := s.ExportCryptoState()
		vAssert(err == nil, "export-allowed-on-a-clean-stream")
	}
}

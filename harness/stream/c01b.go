package stream

func init() {
	vRegister("VH_C01_StreamChunking", VH_C01_StreamChunking)
	vRegister("VH_C01_StreamChunking3", VH_C01_StreamChunking3)
	vRegister("VH_C01_ChunkedRead", VH_C01_ChunkedRead)
}

func vhChunkedSend(enc bool, nw int, maxw int) (sc, rc *vhConn, s, r *Stream, msg []byte, ok bool) {
	sc, rc = &vhConn{}, &vhConn{}
	if enc {
		s, r = vhKeyedPair(sc, rc, "")
		vAssume(s.encryptCounter < 0xfffffff0)
	} else {
		s, r = vhNewStream(sc), vhNewStream(rc)
	}
	s.StartMessage()
	names := [3]string{"w0", "w1", "w2"}
	lens := [3]string{"n0", "n1", "n2"}
	for i := 0; i < nw; i++ {
		n := vInt(lens[i])
		vAssume(n >= 0 && n <= maxw)
		w := vBlob(names[i], n)
		msg = append(msg, w...)
		if err := s.WriteMessage(vhCtx, w); err != nil {
			return sc, rc, s, r, msg, false
		}
		// the buffer handed to WriteMessage is the caller's again once the call has
		// returned (an io.Copy-style loop refills it): overwrite it
		copy(w, make([]byte, len(w)))
	}
	if err := s.EndMessage(vhCtx); err != nil {
		return sc, rc, s, r, msg, false
	}
	return sc, rc, s, r, msg, true
}

// VH_C01_StreamChunking: a message assembled from three WriteMessage calls of
// symbolic sizes and EndMessage, read by ReceiveCompleteMessage: every frame the
// sender emitted is accepted, only the last carries the end flag, the message
// comes back byte-identical.
//
//verif:unwind 6
func VH_C01_StreamChunking() { vhStreamChunking(2, 1<<20) }

// VH_C01_StreamChunking3: three writes (thorough tier).
//
//verif:unwind 6
//verif:tier thorough
//verif:timeout 120000
func VH_C01_StreamChunking3() { vhStreamChunking(3, 1<<20) }

func vhStreamChunking(nw, maxw int) {
	enc := vBool("enc")
	sc, rc, _, r, msg, ok := vhChunkedSend(enc, nw, maxw)
	if !ok {
		vCover("sender-rejects")
		return
	}
	for i, f := range sc.outs {
		last := i == len(sc.outs)-1
		vAssert((f[0] == 1) == last, "only-last-frame-carries-end-flag")
	}
	rc.feed(sc.outs...)
	got, err := r.ReceiveCompleteMessage(vhCtx)
	vAssert(err == nil, "receiver-accepts-every-frame")
	if err != nil {
		return
	}
	vAssertBytesEqual(got, msg, "message-identical")
	vAssert(rc.drained(), "boundary-preserved")
	vCover("chunked-message-roundtrip")
}

// VH_C01_ChunkedRead: same message read with StartMessageRead / ReadMessageBytes
// / EndMessageRead.
//
//verif:unwind 6
func VH_C01_ChunkedRead() {
	enc := vBool("enc")
	sc, rc, _, r, msg, ok := vhChunkedSend(enc, 2, 1<<20)
	if !ok {
		vCover("sender-rejects")
		return
	}
	rc.feed(sc.outs...)
	// a following message must stay untouched
	next := []byte{1, 0, 0, 0, 3, 'x', 'y', 'z'}
	if enc {
		next = nil
	}
	if next != nil {
		rc.feed(next)
	}
	if err := r.StartMessageRead(vhCtx); err != nil {
		vAssert(false, "start-read-accepts")
		return
	}
	buf := make([]byte, len(msg))
	n, err := r.ReadMessageBytes(vhCtx, buf)
	vAssert(err == nil, "read-ok")
	vAssert(n == len(msg), "whole-message-available")
	vAssertBytesEqual(buf[:n], msg, "message-identical")
	// reading past the end of the message must not pull in the next message
	consumed := rc.nread
	extra := make([]byte, 2)
	m, _ := r.ReadMessageBytes(vhCtx, extra)
	vAssert(m == 0, "read-past-end-returns-nothing")
	vAssert(rc.nread == consumed, "read-past-end-leaves-next-message-on-the-wire")
	vAssert(r.EndMessageRead() == nil, "end-read-ok")
	vCover("chunked-read-roundtrip")
}

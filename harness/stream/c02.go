package stream

func init() {
	vRegister("VH_C02_ForgedFrameWithEnd", VH_C02_ForgedFrameWithEnd)
	vRegister("VH_C02_ForgedFrame", VH_C02_ForgedFrame)
	vRegister("VH_C02_Reassembly", VH_C02_Reassembly)
}

// vhHonestFrames makes the real sender emit three frames F0,F1,F2 (symbolic
// payloads and flags) from an arbitrary mirrored state and returns their wire
// images and payloads.
func vhHonestFrames(s *Stream, sc *vhConn) (wire [3][]byte, pay [3][]byte, ok bool) {
	names := [3]string{"p0", "p1", "p2"}
	lens := [3]string{"n0", "n1", "n2"}
	flags := [3]string{"f0", "f1", "f2"}
	for i := 0; i < 3; i++ {
		n := vInt(lens[i])
		vAssume(n >= 0)
		vAssume(n <= 1<<19)
		pay[i] = vBlob(names[i], n)
		f := vByte(flags[i])
		vAssume(f <= 1)
		if err := s.sendMessageWithEnd(vhCtx, pay[i], f); err != nil {
			return wire, pay, false
		}
		wire[i] = sc.outs[i]
	}
	return wire, pay, true
}

func vhForged(useWithEnd bool) {
	sc := &vhConn{}
	rc := &vhConn{}
	s, r := vhKeyedPair(sc, rc, "")
	wire, pay, ok := vhHonestFrames(s, sc)
	if !ok {
		vCover("sender-refused")
		return
	}
	// the receiver has honestly consumed the first p frames
	p := vChoice("pos", 3)
	for i := 0; i < p; i++ {
		rc.feed(wire[i])
		_, _, err := r.ReceiveFrameWithEnd(vhCtx)
		if err != nil {
			// C01's subject, not this harness's
			vAssume(false)
		}
	}
	// now the on-path party supplies an arbitrary header and body
	h0 := vByte("adv_flag")
	al := vUint32("adv_len")
	bn := vInt("adv_bodylen")
	vAssume(bn >= 0)
	vAssume(bn <= 1<<20)
	body := vBlob("adv_body", bn)
	hdr := []byte{h0, byte(al >> 24), byte(al >> 16), byte(al >> 8), byte(al)}
	rc.feed(hdr, body)
	vTag("adv_len", int(al))
	vTag("pos", p)
	var out []byte
	var flag byte
	var err error
	if useWithEnd {
		out, flag, err = r.ReceiveFrameWithEnd(vhCtx)
	} else {
		out, err = r.ReceiveFrame(vhCtx)
		flag = wire[p][0]
	}
	if err != nil {
		vCover("forgery-rejected")
		return
	}
	vCover("ideal:frame-accepted")
	// accepted => it is exactly the honest frame at the receiver's position
	exp := wire[p]
	vAssert(int(al)+5 == len(exp), "accepted-frame-has-honest-length")
	vAssert(h0 == exp[0] && hdr[1] == exp[1] && hdr[2] == exp[2] && hdr[3] == exp[3] && hdr[4] == exp[4], "accepted-frame-has-honest-header")
	vAssert(flag == exp[0], "accepted-flag-is-honest-flag")
	vAssertBytesEqual(out, pay[p], "accepted-payload-is-honest-payload")
}

// VH_C02_ForgedFrameWithEnd: keyed receiver (ReceiveFrameWithEnd) in an arbitrary
// position of an honest frame sequence; the adversary supplies any header and any
// body. Whatever is accepted must be exactly the honest frame for that position
// (covers bit flips, injection incl. empty frames, drop, duplicate, reorder,
// replay, truncation).
func VH_C02_ForgedFrameWithEnd() { vhForged(true) }

// VH_C02_ForgedFrame: same for ReceiveFrame (GetSecret / GetFile path).
func VH_C02_ForgedFrame() { vhForged(false) }

// VH_C02_Reassembly: ReceiveCompleteMessage over up to three adversarial frames
// appends exactly the bytes ReceiveFrameWithEnd returned, in order, and ends on
// the first accepted frame whose flag is 1 (plain stream: the reassembly logic is
// independent of the cipher).
//
//verif:unwind 6
func VH_C02_Reassembly() {
	rc := &vhConn{}
	r := vhNewStream(rc)
	var pay [3][]byte
	var fl [3]byte
	names := [3]string{"q0", "q1", "q2"}
	lens := [3]string{"m0", "m1", "m2"}
	flags := [3]string{"g0", "g1", "g2"}
	for i := 0; i < 3; i++ {
		n := vInt(lens[i])
		vAssume(n >= 0)
		vAssume(n <= 1<<20)
		pay[i] = vBlob(names[i], n)
		fl[i] = vByte(flags[i])
		vAssume(fl[i] <= 10)
		rc.feed([]byte{fl[i], byte(n >> 24), byte(n >> 16), byte(n >> 8), byte(n)}, pay[i])
	}
	msg, err := r.ReceiveCompleteMessage(vhCtx)
	// expected: frames up to and including the first with flag 1; error if a flag > 1 comes first
	var want []byte
	done := false
	bad := false
	for i := 0; i < 3 && !done && !bad; i++ {
		if fl[i] > 1 {
			bad = true
			break
		}
		want = append(want, pay[i]...)
		if fl[i] == 1 {
			done = true
		}
	}
	if err != nil {
		vCover("reassembly-error")
		vAssert(!done, "complete-message-not-rejected")
		return
	}
	vCover("reassembly-ok")
	vAssert(done, "message-ends-only-on-end-flag")
	vAssertBytesEqual(msg, want, "message-is-concatenation-of-frames")
}

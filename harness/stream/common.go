package stream

import (
	"context"
	"crypto/sha256"
	"io"
	"net"
	"time"
)

// vhConn is the harness connection. Every Write is captured as one chunk; reads
// are served from a list of chunks (adversary-chosen, or captured from a sender)
// as one continuous byte stream. Keeping chunks separate keeps offsets concrete
// for the solver; the byte-stream semantics are unchanged.
type vhConn struct {
	outs   [][]byte
	in     [][]byte
	ci     int
	cpos   int
	nread  int
	closed bool
}

func (c *vhConn) Read(p []byte) (int, error) {
	for c.ci < len(c.in) && c.cpos == len(c.in[c.ci]) {
		c.ci++
		c.cpos = 0
	}
	if c.ci == len(c.in) {
		if len(p) == 0 {
			return 0, nil
		}
		return 0, io.EOF
	}
	n := copy(p, c.in[c.ci][c.cpos:])
	c.cpos += n
	c.nread += n
	return n, nil
}

func (c *vhConn) Write(p []byte) (int, error) {
	q := make([]byte, len(p))
	copy(q, p)
	c.outs = append(c.outs, q)
	return len(p), nil
}

// feed appends chunks to the read script.
func (c *vhConn) feed(chunks ...[]byte) { c.in = append(c.in, chunks...) }

// drained reports whether every scripted byte has been consumed.
func (c *vhConn) drained() bool {
	for c.ci < len(c.in) && c.cpos == len(c.in[c.ci]) {
		c.ci++
		c.cpos = 0
	}
	return c.ci == len(c.in)
}

func (c *vhConn) Close() error                       { c.closed = true; return nil }
func (c *vhConn) LocalAddr() net.Addr                { return nil }
func (c *vhConn) RemoteAddr() net.Addr               { return nil }
func (c *vhConn) SetDeadline(t time.Time) error      { return nil }
func (c *vhConn) SetReadDeadline(t time.Time) error  { return nil }
func (c *vhConn) SetWriteDeadline(t time.Time) error { return nil }

func vhNewStream(c *vhConn) *Stream {
	return &Stream{conn: c, reader: c, writer: c, sendDigest: sha256.New(), recvDigest: sha256.New()}
}

var vhCtx = context.Background()

// vhKeyedPair builds a sender and a receiver that share a key and are in an
// arbitrary but mirrored protected-stream state: same direction counter, the
// receiver knows the sender's base IV iff the counter is non-zero, first-frame
// flags equal, handshake digests swapped.
func vhKeyedPair(sc, rc *vhConn, prefix string) (*Stream, *Stream) {
	s := vhNewStream(sc)
	r := vhNewStream(rc)
	key := vBlob(prefix+"key", 32)
	if err := s.SetSymmetricKey(key); err != nil {
		vAssume(false)
	}
	if err := r.SetSymmetricKey(key); err != nil {
		vAssume(false)
	}
	ctr := vUint32(prefix + "ctr")
	first := vBool(prefix + "firstDone")
	dS := vBlob(prefix+"digestS", 32)
	dR := vBlob(prefix+"digestR", 32)
	s.encryptCounter = ctr
	r.decryptCounter = ctr
	s.finishedSendAAD = first
	r.finishedRecvAAD = first
	s.finalSendDigest = dS
	s.finalRecvDigest = dR
	r.finalRecvDigest = dS
	r.finalSendDigest = dR
	if ctr != 0 {
		r.decryptIV = s.encryptIV
	}
	return s, r
}

// VHDigestsFrozen reports whether either handshake digest has been frozen (for
// harnesses of other packages; the overlay makes this file part of the package).
func VHDigestsFrozen(s *Stream) bool { return s.finalSendDigest != nil || s.finalRecvDigest != nil }

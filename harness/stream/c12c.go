package stream

func init() {
	vRegister("VH_C12_RejectedKey", VH_C12_RejectedKey)
}

// VH_C12_RejectedKey: a key installation that is refused (a key of any length
// other than 32) changes nothing: on a stream in an arbitrary keyed state the
// counters, base IVs, first-frame flags and mode are as before, and the next frame
// is the (ctr+1)-th of the direction -- it opens under the reference decoder with
// the unchanged base IV advanced by the unchanged counter, not as a new first
// frame. (No key/nonce pair is used twice.)
func VH_C12_RejectedKey() {
	sc := &vhConn{}
	s := vhNewStream(sc)
	key := vBlob("key", 32)
	if s.SetSymmetricKey(key) != nil {
		vAssume(false)
	}
	ctr := vUint32("ctr")
	vAssume(ctr >= 1 && ctr < 0xfffffff0)
	dctr := vUint32("dctr")
	s.encryptCounter, s.decryptCounter = ctr, dctr
	s.finishedSendAAD, s.finishedRecvAAD = true, vBool("recvFirstDone")
	iv := s.encryptIV
	n := vChoice("bad_len", 4)
	bad := vBlob("bad_key", []int{0, 16, 31, 33}[n])
	err := s.SetSymmetricKey(bad)
	vAssert(err != nil, "key-of-the-wrong-length-is-refused")
	vAssert(s.encryptCounter == ctr && s.decryptCounter == dctr, "refused-key-leaves-the-counters")
	vAssert(s.encryptIV == iv && s.encrypted && s.finishedSendAAD, "refused-key-leaves-iv-mode-and-flags")
	d := vBlob("d", 5)
	if s.sendMessageWithEnd(vhCtx, d, 1) != nil {
		vAssume(false)
	}
	w := sc.outs[0]
	vAssert(len(w) == 5+5+16, "next-frame-is-not-a-first-frame")
	if len(w) != 5+5+16 {
		return
	}
	pt, oerr := vhAEAD(key).Open(nil, vhSpecNonce(iv, ctr), w[5:], vhSpecAAD(false, nil, nil, w[:5]))
	vAssert(oerr == nil, "next-frame-opens-under-the-old-key-at-the-next-counter")
	if oerr == nil {
		vAssertBytesEqual(pt, d, "plaintext")
	}
	vCover("rejected-key")
}

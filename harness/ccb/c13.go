package ccb

func init() {
	vRegister("VH_C13_NestedContact", VH_C13_NestedContact)
}

// VH_C13_NestedContact: the requester-side splitter of a (possibly nested) CCB
// contact, which is handed text taken from a peer-supplied address, on an
// arbitrary ASCII text (<= 8 bytes): no panic (every index and slice bound is an
// obligation); an accepted contact has a non-empty entry broker and a first id,
// and none of the parts contains the '#' separator.
//
//verif:unwind 16
func VH_C13_NestedContact() {
	s := vString("contact", 8)
	vAssume(vASCIIStr(s))
	entry, id, route, ok := splitFlatEntryAndRoute(s)
	if !ok {
		vCover("contact-rejected")
		vAssert(entry == "" && id == "" && route == "", "nothing-returned-on-rejection")
		return
	}
	vCover("contact-accepted")
	vAssert(entry != "", "entry-broker-present")
	vAssert(vNoneOf(entry, "#") && vNoneOf(id, "#") && vNoneOf(route, "#"), "separator-in-no-part")
}

package ccb

import (
	"context"
	"errors"
	"io"
	"net"
	"time"

	"github.com/PelicanPlatform/classad/classad"
	"github.com/bbockelm/cedar/message"
	"github.com/bbockelm/cedar/stream"
)

func init() {
	vRegister("VH_C20_Accept", VH_C20_Accept)
	vRegister("VH_C20_Proxy", VH_C20_Proxy)
}

type vhAddr struct{}

func (vhAddr) Network() string { return "tcp" }
func (vhAddr) String() string  { return "198.51.100.7:40000" }

type vhConn struct {
	id     int
	closed bool
}

func (c *vhConn) Read(p []byte) (int, error)         { return 0, io.EOF }
func (c *vhConn) Write(p []byte) (int, error)        { return len(p), nil }
func (c *vhConn) Close() error                       { c.closed = true; return nil }
func (c *vhConn) LocalAddr() net.Addr                { return vhAddr{} }
func (c *vhConn) RemoteAddr() net.Addr               { return vhAddr{} }
func (c *vhConn) SetDeadline(t time.Time) error      { return nil }
func (c *vhConn) SetReadDeadline(t time.Time) error  { return nil }
func (c *vhConn) SetWriteDeadline(t time.Time) error { return nil }

type vhListener struct {
	conns  []*vhConn
	next   int
	closed bool
}

func (l *vhListener) Accept() (net.Conn, error) {
	if l.next >= len(l.conns) {
		return nil, errors.New("listener closed")
	}
	l.next++
	return l.conns[l.next-1], nil
}
func (l *vhListener) Close() error   { l.closed = true; return nil }
func (l *vhListener) Addr() net.Addr { return vhAddr{} }

// per-connection scripted hello: command integer and ad (or a read error)
type vhHello struct {
	fail bool
	cmd  int
	ad   *classad.ClassAd
}

func vhInstallHello(hello map[net.Conn]*vhHello) func() {
	var cur *vhHello
	message.VerifHook_NewMessageFromStream = func(s message.StreamInterface) *message.Message {
		cur = nil
		if st, ok := s.(*stream.Stream); ok {
			cur = hello[st.GetConnection()]
		}
		return &message.Message{}
	}
	message.VerifHook_Message_GetInt = func(m *message.Message, ctx context.Context) (int, error) {
		if cur == nil || cur.fail {
			return 0, io.EOF
		}
		return cur.cmd, nil
	}
	message.VerifHook_Message_GetClassAdWithMaxSize = func(m *message.Message, ctx context.Context, max int) (*classad.ClassAd, error) {
		if cur == nil || cur.ad == nil {
			return nil, io.EOF
		}
		return cur.ad, nil
	}
	return func() {
		message.VerifHook_NewMessageFromStream = nil
		message.VerifHook_Message_GetInt = nil
		message.VerifHook_Message_GetClassAdWithMaxSize = nil
	}
}


// VH_C20_Accept: the reverse-connection accept loop with up to three arriving
// connections, each opening with an arbitrary command and an arbitrary (or
// absent, or unreadable) connect id: the connection returned is one whose hello
// carried exactly the expected id; every connection accepted before it is
// closed; when no connection qualifies the loop ends with the listener's error
// and returns nothing; a cancelled context returns nothing.
//
//verif:unwind 6
func VH_C20_Accept() {
	want := "3f2a"
	n := vChoice("arrivals", 4)
	names := [3]string{"c0", "c1", "c2"}
	ln := &vhListener{}
	hello := map[net.Conn]*vhHello{}
	ids := [3]string{}
	okHello := [3]bool{}
	for i := 0; i < n; i++ {
		c := &vhConn{id: i}
		ln.conns = append(ln.conns, c)
		h := &vhHello{fail: vBool(names[i] + "_readfails"), cmd: vInt(names[i] + "_cmd")}
		ad := classad.New()
		ids[i] = vString(names[i]+"_id", 6) // any text: shorter, longer, other case, a prefix ...
		vAssume(vASCIIStr(ids[i]))
		if vBool(names[i] + "_hasid") {
			_ = ad.Set(AttrClaimID, ids[i])
		} else {
			ids[i] = ""
		}
		h.ad = ad
		hello[c] = h
		okHello[i] = !h.fail && h.cmd == CommandReverseConnect && ids[i] == want
	}
	defer vhInstallHello(hello)()
	ctx := context.Background()
	cancelled := vBool("cancelled")
	if cancelled {
		c2, cancel := context.WithCancel(ctx)
		cancel()
		ctx = c2
	}
	conn, err := acceptReversed(ctx, ln, want)
	if cancelled {
		vAssert(conn == nil && err != nil, "cancelled-context-returns-nothing")
		vAssert(ln.next == 0, "cancelled-context-accepts-nothing")
		vCover("cancelled")
		return
	}
	if err != nil {
		vCover("no-connection-qualified")
		vAssert(conn == nil, "error-returns-no-connection")
		for i := 0; i < n; i++ {
			vAssert(!okHello[i], "a-qualifying-connection-is-not-passed-over")
			vAssert(ln.conns[i].closed, "rejected-connection-closed")
		}
		return
	}
	vCover("connection-returned")
	got, isOurs := conn.(*vhConn)
	vAssert(isOurs, "returned-connection-is-an-accepted-one")
	if !isOurs {
		return
	}
	vAssert(okHello[got.id], "returned-connection-presented-the-expected-id")
	vAssert(!got.closed, "returned-connection-is-open")
	for i := 0; i < got.id; i++ {
		vAssert(ln.conns[i].closed, "earlier-connections-closed")
		vAssert(!okHello[i], "first-qualifying-connection-wins")
	}
}

// VH_C20_Proxy: the proxied-mode request against an arbitrary broker reply and
// an arbitrary following hello: it returns the broker connection only if the
// broker reported success and the hello carried exactly the expected connect
// id; a reported failure ends the attempt with an error.
//
//verif:unwind 6
func VH_C20_Proxy() {
	want := "3f2a"
	conn := &vhConn{}
	st := stream.NewStream(conn)
	reply := vPeerAd("reply", 6)
	helloAd := classad.New()
	hid := vString("hello_id", 6)
	vAssume(vASCIIStr(hid))
	if vBool("hello_hasid") {
		_ = helloAd.Set(AttrClaimID, hid)
	} else {
		hid = ""
	}
	helloCmd := vInt("hello_cmd")
	step := 0
	var sent []*classad.ClassAd
	message.VerifHook_NewMessageFromStream = func(s message.StreamInterface) *message.Message { step++; return &message.Message{} }
	message.VerifHook_NewMessageForStream = func(s message.StreamInterface) *message.Message { return &message.Message{} }
	message.VerifHook_Message_PutInt = func(m *message.Message, ctx context.Context, v int) error { return nil }
	message.VerifHook_Message_PutClassAd = func(m *message.Message, ctx context.Context, ad *classad.ClassAd) error {
		sent = append(sent, ad)
		return nil
	}
	message.VerifHook_Message_PutClassAdWithOptions = func(m *message.Message, ctx context.Context, ad *classad.ClassAd, c *message.PutClassAdConfig) error {
		sent = append(sent, ad)
		return nil
	}
	message.VerifHook_Message_FinishMessage = func(m *message.Message, ctx context.Context) error { return nil }
	readFails := vBool("read_fails")
	message.VerifHook_Message_GetInt = func(m *message.Message, ctx context.Context) (int, error) {
		if readFails {
			return 0, io.EOF
		}
		return helloCmd, nil
	}
	getAd := func(m *message.Message, ctx context.Context, max int) (*classad.ClassAd, error) {
		if step == 1 {
			return reply, nil
		}
		return helloAd, nil
	}
	message.VerifHook_Message_GetClassAdWithMaxSize = getAd
	message.VerifHook_Message_GetClassAd = func(m *message.Message, ctx context.Context) (*classad.ClassAd, error) { return getAd(m, ctx, 0) }
	defer func() {
		message.VerifHook_NewMessageFromStream = nil
		message.VerifHook_NewMessageForStream = nil
		message.VerifHook_Message_PutInt = nil
		message.VerifHook_Message_PutClassAd = nil
		message.VerifHook_Message_PutClassAdWithOptions = nil
		message.VerifHook_Message_FinishMessage = nil
		message.VerifHook_Message_GetInt = nil
		message.VerifHook_Message_GetClassAdWithMaxSize = nil
		message.VerifHook_Message_GetClassAd = nil
	}()
	got, err := proxyRequestOnStream(context.Background(), conn, st, "7", "", want, "", "req")
	res, hasRes := reply.EvaluateAttrBool(AttrResult)
	if err != nil {
		vCover("proxy-refused")
		vAssert(got == nil, "error-returns-no-connection")
		return
	}
	vCover("proxy-established")
	vAssert(hasRes && res, "broker-reported-success")
	vAssert(helloCmd == CommandReverseConnect, "hello-is-a-reverse-connect")
	vAssert(hid == want, "hello-carried-the-expected-id")
	vAssert(got == net.Conn(conn), "the-broker-connection-is-returned")
	vAssert(len(sent) == 1, "one-request-sent")
	if len(sent) == 1 {
		id, _ := sent[0].EvaluateAttrString(AttrClaimID)
		vAssert(id == want, "request-carries-the-connect-id")
	}
}

package ccb

import (
	"context"
	"errors"
	"net"
	"strconv"

	"github.com/bbockelm/cedar/addresses"
	"github.com/bbockelm/cedar/security"
	"github.com/bbockelm/cedar/stream"
)

func init() {
	vRegister("VH_C20_FreshIDPerRequest", VH_C20_FreshIDPerRequest)
}

// VH_C20_FreshIDPerRequest: the real Dial / dialOne over two or three broker
// contacts in sequential mode, with the per-broker request (dialStandard /
// dialProxy) and the id generator replaced by recording stubs: the first k
// requests fail, so further brokers are tried. Every request carries a connect id
// generated for that very request -- the k-th request carries the k-th id drawn,
// so no id is ever disclosed to two brokers -- and at most one connection comes
// back, the one the successful request produced.
//
//verif:unwind 8
func VH_C20_FreshIDPerRequest() {
	drawn := 0
	VerifHook_GenerateConnectID = func() (string, error) {
		drawn++
		return "id-" + strconv.Itoa(drawn), nil
	}
	var used []string
	var drawnAt []int
	nfail := vChoice("failing_requests", 3)
	win := &vhConn{id: 77}
	attempt := func(connectID string) (net.Conn, error) {
		used = append(used, connectID)
		drawnAt = append(drawnAt, drawn)
		if len(used) <= nfail {
			return nil, errors.New("broker reported failure")
		}
		return win, nil
	}
	VerifHook_dialStandard = func(ctx context.Context, c addresses.CCBContact, connectID string, o DialOptions) (net.Conn, error) {
		return attempt(connectID)
	}
	VerifHook_dialProxy = func(ctx context.Context, c addresses.CCBContact, connectID string, o DialOptions) (net.Conn, error) {
		return attempt(connectID)
	}
	// nested (multi-hop) contacts go through resolveContact / proxyRequestDial: the
	// entry broker's handshake and the streaming request itself are stubs; the id and
	// the return address must reach the request in their own positions
	VerifHook_dialBrokerAuth = func(ctx context.Context, addr string, sec *security.SecurityConfig) (net.Conn, *stream.Stream, *security.SecurityNegotiation, error) {
		return &vhConn{id: 5}, nil, &security.SecurityNegotiation{ServerConfig: &security.SecurityConfig{RemoteVersion: "$CondorVersion: 99.0.0 $"}}, nil
	}
	VerifHook_proxyRequestOnStream = func(ctx context.Context, bc net.Conn, bs *stream.Stream, ccbid, route, connectID, returnAddr, name string) (net.Conn, error) {
		vAssert(returnAddr == "<198.51.100.9:9618>" || returnAddr == "", "return-address-travels-as-the-return-address")
		return attempt(connectID)
	}
	defer func() {
		VerifHook_dialBrokerAuth = nil
		VerifHook_proxyRequestOnStream = nil
		VerifHook_GenerateConnectID = nil
		VerifHook_dialStandard = nil
		VerifHook_dialProxy = nil
	}()
	n := 2 + vChoice("extra_broker", 2)
	nested := vBool("nested_contacts")
	var contacts []addresses.CCBContact
	for i := 0; i < n; i++ {
		b := "192.0.2." + strconv.Itoa(10+i) + ":9618"
		if nested {
			// the broker is itself reached through CCB: <entry>#5, then #<id>
			contacts = append(contacts, addresses.CCBContact{BrokerAddr: b + "#5", CCBID: strconv.Itoa(40 + i), Raw: b + "#5#" + strconv.Itoa(40+i)})
			continue
		}
		contacts = append(contacts, addresses.CCBContact{BrokerAddr: b, CCBID: strconv.Itoa(40 + i), Raw: b + "#" + strconv.Itoa(40+i)})
	}
	opts := DialOptions{Security: &security.SecurityConfig{}, Stagger: -1}
	if vBool("proxied") {
		opts.ProxyReturnAddr = "<198.51.100.9:9618>"
	}
	conn, err := Dial(context.Background(), contacts, opts)
	for k, id := range used {
		vAssert(id == "id-"+strconv.Itoa(k+1), "request-k-carries-the-k-th-id-generated")
		vAssert(drawnAt[k] == k+1, "the-id-is-generated-for-that-very-request")
		for j := 0; j < k; j++ {
			vAssert(used[j] != id, "no-id-is-sent-to-two-brokers")
		}
	}
	if nfail >= n {
		vCover("all-brokers-fail")
		vAssert(err != nil && conn == nil, "failure-when-every-request-failed")
		vAssert(len(used) == n, "every-broker-tried-once")
	} else {
		vCover("one-request-succeeds")
		vAssert(err == nil && conn == net.Conn(win), "the-successful-requests-connection-is-returned")
		vAssert(len(used) == nfail+1, "no-further-requests-after-the-winner")
	}
}

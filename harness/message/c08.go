package message

import (
	"regexp"
	"strings"

	"github.com/PelicanPlatform/classad/classad"
)

func init() {
	vRegister("VH_C08_Literal", VH_C08_Literal)
	vRegister("VH_C08_Consume", VH_C08_Consume)
}

// Reference recognisers for the ClassAd lexer's literal tokens (DESIGN appendix
// A.4), written independently of the shortcut under test.
var vhRefBool = regexp.MustCompile(`^([tT][rR][uU][eE]|[fF][aA][lL][sS][eE])$`)
var vhRefInt = regexp.MustCompile(`^-?(0|[1-9][0-9]*)$`)
var vhRefReal = regexp.MustCompile(`^-?([0-9]+\.[0-9]+|\.[0-9]+|[0-9]+)([eE][+\-]?[0-9]+)?$`)
var vhRefStr = regexp.MustCompile(`^"[^"\\]*"$`)
var vhBigExp = regexp.MustCompile(`[eEpP][+\-]?[0-9][0-9][0-9]`)

func vhParseInt(s string) (int64, bool) {
	neg := false
	if len(s) > 0 && s[0] == '-' {
		neg = true
		s = s[1:]
	}
	if len(s) == 0 {
		return 0, false
	}
	var n int64
	for i := 0; i < len(s); i++ {
		if s[i] < '0' || s[i] > '9' {
			return 0, false
		}
		n = n*10 + int64(s[i]-'0')
	}
	if neg {
		n = -n
	}
	return n, true
}

// VH_C08_Literal: whenever the decoder's literal shortcut (tryInsertLiteral)
// accepts a value text, the reference lexer says the text is exactly that one
// literal with that value: a boolean keyword, a canonical integer, a real with
// digits on both sides of the point, or a quoted string without interior quote
// or backslash.
//
//verif:unwind 10
func VH_C08_Literal() {
	v := vString("value", 6)
	vAssume(vASCIIStr(v))
	vAssume(vNoneOf(v, "_\x00"))
	vAssume(!vhBigExp.MatchString(v)) // exponents of three digits reach the float range limit (outside)
	ad := classad.New()
	err := tryInsertLiteral(ad, "A", v)
	if err != nil {
		vCover("shortcut-declines")
		return
	}
	vCover("shortcut-accepts")
	t := strings.TrimSpace(v)
	if b, ok := ad.EvaluateAttrBool("A"); ok {
		vCover("bool")
		vAssert(vhRefBool.MatchString(t), "accepted-bool-is-a-bool-keyword")
		vAssert(b == (len(t) > 0 && (t[0] == 't' || t[0] == 'T')), "bool-value")
		return
	}
	if n, ok := ad.EvaluateAttrInt("A"); ok {
		vCover("int")
		vAssert(vhRefInt.MatchString(t), "accepted-int-is-a-canonical-integer-literal")
		want, wok := vhParseInt(t)
		vAssert(wok && n == want, "int-value")
		return
	}
	if s, ok := ad.EvaluateAttrString("A"); ok {
		vCover("string")
		vAssert(vhRefStr.MatchString(t), "accepted-string-is-one-string-literal")
		if len(t) >= 2 {
			vAssertStrEqual(s, t[1:len(t)-1], "string-value")
		}
		return
	}
	vCover("real")
	vAssert(vAnd(vhRefReal.MatchString(t), strings.ContainsAny(t, ".eE")), "accepted-real-is-a-real-literal")
}

// VH_C08_Consume: the parsing receiver (expression parsing stubbed), the raw-text
// receiver and the skipping receiver over the same wire image (count, up to two
// short expression strings possibly equal to the secret marker, two type names,
// plain or encrypted framing of the strings): same success/failure and the same
// number of bytes left unread.
//
//verif:unwind 12
func VH_C08_Consume() {
	enc := vBool("enc")
	VerifHook_parseAndInsertExpression = func(ad *classad.ClassAd, s string) error { return nil }
	defer func() { VerifHook_parseAndInsertExpression = nil }()
	// build the wire image with the real encoder
	w := &vhStream{enc: enc}
	wm := NewMessageForStream(w)
	count := vInt("count")
	vAssume(count >= 0 && count <= 2)
	names := [4]string{"e0", "e1", "e2", "e3"}
	nstr := vInt("nstrings")
	vAssume(nstr >= 0 && nstr <= 4)
	if wm.PutInt(vhCtx, count) != nil {
		vAssume(false)
	}
	texts := []string{"", "a", "ZKM", "A=1", "ZKMo", "ZK"}
	for i := 0; i < nstr; i++ {
		// case-split (concrete) strings: the three receivers then run concretely
		s := texts[vChoice(names[i], len(texts))]
		if wm.PutString(vhCtx, s) != nil {
			vAssume(false)
		}
	}
	tail := int64(0x0102030405060708)
	if wm.PutInt64(vhCtx, tail) != nil || wm.FinishMessage(vhCtx) != nil {
		vAssume(false)
	}
	wire := w.all()
	capBytes := vInt("cap")
	vAssume(capBytes >= 1 && capBytes <= 48)
	run := func(kind int) (bool, int) {
		r := &vhStream{enc: enc}
		r.feed(wire, true)
		m := NewMessageFromStream(r)
		var err error
		switch kind {
		case 0:
			_, err = getClassAdFromMessage(m, vhCtx)
		case 1:
			_, err = m.GetClassAdRaw(vhCtx)
		case 2:
			err = m.SkipClassAdRaw(vhCtx)
		case 3:
			_, err = getClassAdFromMessageWithMaxSize(m, capBytes, vhCtx)
		}
		if err := m.ensureData(vhCtx, 0); err != nil {
			_ = err
		}
		return err == nil, m.buffer.Len()
	}
	okA, leftA := run(0)
	okB, leftB := run(1)
	okC, leftC := run(2)
	vTag("nstrings", nstr)
	vTag("count", count)
	if okA {
		vCover("parsing-receiver-accepts")
	}
	vAssert(vImplies(okA && okB, leftA == leftB), "raw-receiver-consumes-what-the-parsing-receiver-consumes")
	vAssert(vImplies(okA && okC, leftA == leftC), "skipping-receiver-consumes-what-the-parsing-receiver-consumes")
	vAssert(vImplies(okA, okC), "skipping-receiver-accepts-what-the-parsing-receiver-accepts")
	vAssert(vImplies(okC && okB, leftB == leftC), "skip-and-raw-agree")
	// the size-limited parsing receiver (used for every handshake ad): whatever it
	// accepts, the unlimited one accepts, and it has consumed exactly the same bytes
	okD, leftD := run(3)
	if okD {
		vCover("bounded-receiver-accepts")
	}
	vAssert(vImplies(okD, okA), "bounded-receiver-accepts-only-what-the-unbounded-one-accepts")
	vAssert(vImplies(okD && okA, leftD == leftA), "bounded-receiver-consumes-what-the-unbounded-one-consumes")
}

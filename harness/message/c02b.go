package message

import (
	"io"

	"github.com/bbockelm/cedar/stream"
)

func init() {
	vRegister("VH_C02_CutConnection", VH_C02_CutConnection)
}

// VH_C02_CutConnection: the typed readers over the *real* stream when an on-path
// party forwards the first frames of a multi-frame message and then ends the
// connection exactly on a frame boundary (or inside a frame). A three-frame
// message (arbitrary contents, 1..4 bytes per frame) is written by the real typed
// writer onto a real stream, plain or AES-GCM; the receiver's connection carries
// the first one or two frames, optionally a part of the next, then end-of-file.
// Whatever reader the application uses (rest-of-message, a fixed count reaching
// past what arrived, single characters until the end), it gets an error -- never
// a shortened message with the "end of message" outcome -- and with all three
// frames delivered it gets exactly the message.
//
//verif:unwind 24
func VH_C02_CutConnection() {
	enc := vBool("enc")
	sc := &vhNetConn{}
	s := stream.NewStream(sc)
	key := vBlob("key", 32)
	if enc {
		if s.SetSymmetricKey(key) != nil {
			vAssume(false)
		}
	}
	names := [3]string{"f0", "f1", "f2"}
	lens := [3]int{}
	var all []byte
	m := NewMessageForStream(s)
	for i := 0; i < 3; i++ {
		lens[i] = 1 + vChoice(names[i]+"_len", 4)
		part := vBlob(names[i], lens[i])
		all = append(all, part...)
		if m.PutBytes(vhCtx, part) != nil {
			vAssume(false)
		}
		if i < 2 {
			if m.FlushFrame(vhCtx, false) != nil {
				vAssume(false)
			}
		}
	}
	if m.FinishMessage(vhCtx) != nil {
		vAssume(false)
	}
	vAssert(len(sc.outs) == 3, "three-frames-on-the-wire")
	if len(sc.outs) != 3 {
		return
	}
	delivered := 1 + vChoice("frames_delivered", 3) // 1, 2 or all 3
	rc := &vhNetConn{}
	got := 0
	for i := 0; i < delivered; i++ {
		rc.in = append(rc.in, sc.outs[i])
		got += lens[i]
	}
	if delivered < 3 && vBool("cut_inside_the_next_frame") {
		w := sc.outs[delivered]
		rc.in = append(rc.in, w[:len(w)-1])
	}
	r := stream.NewStream(rc)
	if enc {
		if r.SetSymmetricKey(key) != nil {
			vAssume(false)
		}
	}
	rm := NewMessageFromStream(r)
	complete := delivered == 3
	switch vChoice("reader", 3) {
	case 0:
		data, err := rm.GetRemainingBytes(vhCtx)
		if complete {
			vCover("complete-message")
			vAssert(err == nil && len(data) == len(all), "complete-message-delivered")
			if err == nil && len(data) == len(all) {
				vAssertBytesEqual(data, all, "delivered-bytes-are-the-frames-in-order")
			}
		} else {
			vCover("truncated-message")
			vAssert(err != nil, "truncated-message-is-an-error-not-a-short-message")
		}
	case 1:
		data, err := rm.GetBytes(vhCtx, len(all))
		if complete {
			vAssert(err == nil && len(data) == len(all), "complete-message-delivered")
		} else {
			vAssert(err != nil && err != io.EOF, "connection-failure-is-not-reported-as-end-of-message")
		}
	case 2:
		n := 0
		var err error
		for n <= len(all) {
			if _, err = rm.GetChar(vhCtx); err != nil {
				break
			}
			n++
		}
		if complete {
			vAssert(n == len(all) && err == io.EOF, "complete-message-ends-with-end-of-message")
		} else {
			vAssert(n <= got, "no-more-than-arrived")
			vAssert(err != nil && err != io.EOF, "connection-failure-is-not-reported-as-end-of-message")
		}
	}
}

package message

func init() {
	vRegister("VH_C14_SplitStorage", VH_C14_SplitStorage)
	vRegister("VH_C01_SplitStorage", VH_C01_SplitStorage)
}

// VH_C01_SplitStorage: the same run read for C01: what the typed layer handed out
// for a multi-frame message is still what was sent once the whole message has been
// read (a value returned earlier is not a window onto storage that later frames
// overwrite).
//
//verif:unwind 128
func VH_C01_SplitStorage() { VH_C14_SplitStorage() }

// VH_C14_SplitStorage: values that straddle frame boundaries, with the receive
// buffer behaving as the real bytes.Buffer does (vRealBuffer: real capacity
// growth, and real reuse of storage that earlier Next/Bytes results alias) rather
// than the re-allocating model the other harnesses use. Eight integers of
// arbitrary value around a string and a raw byte field, an int32 and a char are
// written (strings NUL-terminated or length-prefixed), the wire bytes are re-cut
// either into two frames at every position or into equal frames of every size
// 4..67, and the typed readers must return the values sent: a reader that keeps a
// slice of the buffer across the arrival of the next frame reads whatever that
// frame wrote over it.
//
//verif:unwind 128
func VH_C14_SplitStorage() {
	vRealBuffer(true)
	defer vRealBuffer(false)
	enc := vBool("length_prefixed_strings")
	w := &vhStream{enc: enc}
	m := NewMessageForStream(w)
	names := [8]string{"v0", "v1", "v2", "v3", "v4", "v5", "v6", "v7"}
	var vals [8]int64
	put := func(i int) {
		vals[i] = vInt64(names[i])
		if m.PutInt64(vhCtx, vals[i]) != nil {
			vAssume(false)
		}
	}
	for i := 0; i < 5; i++ {
		put(i)
	}
	// a string and a raw byte field in the middle (text concrete: the plain-text
	// string reader scans byte by byte; the raw bytes are arbitrary)
	const text = "frame-straddling text"
	raw := vBlob("raw", 19)
	if m.PutString(vhCtx, text) != nil || m.PutBytes(vhCtx, raw) != nil {
		vAssume(false)
	}
	for i := 5; i < 8; i++ {
		put(i)
	}
	i32 := vInt32("w32")
	ch := vByte("ch")
	if m.PutInt32(vhCtx, i32) != nil || m.PutChar(vhCtx, ch) != nil || m.FinishMessage(vhCtx) != nil {
		vAssume(false)
	}
	wire := w.all()
	r := &vhStream{enc: enc}
	if vBool("equal_frames") {
		f := 4 + vChoice("frame_size", 64)
		for o := 0; o < len(wire); o += f {
			e := o + f
			if e > len(wire) {
				e = len(wire)
			}
			r.feed(wire[o:e], e == len(wire))
		}
	} else {
		c := 1 + vChoice("cut", 120)
		if c >= len(wire) {
			c = len(wire) - 1
		}
		r.feed(wire[:c], false)
		r.feed(wire[c:], true)
	}
	rm := NewMessageFromStream(r)
	// everything is read first and compared afterwards: a value handed out earlier
	// must still be intact when later frames have arrived
	var got [8]int64
	var gerr [8]error
	for i := 0; i < 5; i++ {
		got[i], gerr[i] = rm.GetInt64(vhCtx)
	}
	gs, serr := rm.GetString(vhCtx)
	gb, berr := rm.GetBytes(vhCtx, 19)
	for i := 5; i < 8; i++ {
		got[i], gerr[i] = rm.GetInt64(vhCtx)
	}
	g32, err32 := rm.GetInt32(vhCtx)
	gc, errc := rm.GetChar(vhCtx)
	for i := 0; i < 8; i++ {
		vAssert(gerr[i] == nil && got[i] == vals[i], "int64-roundtrip-any-cut")
	}
	vAssert(serr == nil && gs == text, "string-roundtrip-any-cut")
	vAssert(berr == nil && len(gb) == 19, "bytes-roundtrip-any-cut")
	if berr == nil && len(gb) == 19 {
		vAssertBytesEqual(gb, raw, "bytes-still-intact-after-the-rest-of-the-message-was-read")
	}
	vAssert(err32 == nil && g32 == i32, "int32-roundtrip-any-cut")
	vAssert(errc == nil && gc == ch, "char-roundtrip-any-cut")
	vCover("split-values-roundtrip")
}

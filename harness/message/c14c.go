package message

func init() {
	vRegister("VH_C14_SplitStorage", VH_C14_SplitStorage)
}

// VH_C14_SplitStorage: values that straddle frame boundaries, with the receive
// buffer behaving as the real bytes.Buffer does (vRealBuffer: real capacity
// growth, and real reuse of storage that earlier Next/Bytes results alias) rather
// than the re-allocating model the other harnesses use. Eleven integers of
// arbitrary value, an int32 and a char are written, the wire bytes are re-cut
// either into two frames at every position or into equal frames of every size
// 4..67, and the typed readers must return the values sent: a reader that keeps a
// slice of the buffer across the arrival of the next frame reads whatever that
// frame wrote over it.
//
//verif:unwind 128
func VH_C14_SplitStorage() {
	vRealBuffer(true)
	defer vRealBuffer(false)
	w := &vhStream{}
	m := NewMessageForStream(w)
	names := [11]string{"v0", "v1", "v2", "v3", "v4", "v5", "v6", "v7", "v8", "v9", "v10"}
	var vals [11]int64
	for i := range vals {
		vals[i] = vInt64(names[i])
		if m.PutInt64(vhCtx, vals[i]) != nil {
			vAssume(false)
		}
	}
	i32 := vInt32("w32")
	ch := vByte("ch")
	if m.PutInt32(vhCtx, i32) != nil || m.PutChar(vhCtx, ch) != nil || m.FinishMessage(vhCtx) != nil {
		vAssume(false)
	}
	wire := w.all()
	vAssert(len(wire) == 97, "reference-byte-layout")
	r := &vhStream{}
	if vBool("equal_frames") {
		f := 4 + vChoice("frame_size", 64)
		for o := 0; o < len(wire); o += f {
			e := o + f
			if e > len(wire) {
				e = len(wire)
			}
			r.feed(wire[o:e], e == len(wire))
		}
	} else {
		c := 1 + vChoice("cut", 96)
		r.feed(wire[:c], false)
		r.feed(wire[c:], true)
	}
	rm := NewMessageFromStream(r)
	for i := range vals {
		g, err := rm.GetInt64(vhCtx)
		vAssert(err == nil && g == vals[i], "int64-roundtrip-any-cut")
	}
	g32, err := rm.GetInt32(vhCtx)
	vAssert(err == nil && g32 == i32, "int32-roundtrip-any-cut")
	gc, err := rm.GetChar(vhCtx)
	vAssert(err == nil && gc == ch, "char-roundtrip-any-cut")
	vCover("split-values-roundtrip")
}

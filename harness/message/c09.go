package message

import (
	"context"
	"regexp"
	"strings"

	"github.com/PelicanPlatform/classad/classad"
	"github.com/bbockelm/cedar/stream"
)

func init() {
	vRegister("VH_C09_Emit", VH_C09_Emit)
	vRegister("VH_C09_EmitBoth", VH_C09_EmitBoth)
}

var vhIdentRE = regexp.MustCompile(`^[A-Za-z_][A-Za-z0-9_]*$`)

// independent statement of "private" (DESIGN appendix A.6)
var vhPrivateNames = []string{"capability", "childclaimids", "claimid", "claimidlist", "claimids", "transferkey"}

func vhPrivateV1(name string) bool { return vIn(strings.ToLower(name), vhPrivateNames) }
func vhPrivateV2(name string) bool {
	if len(name) < 12 {
		return false
	}
	return strings.ToLower(name[:12]) == "_condor_priv"
}

type vhPut struct {
	s       string
	flushed bool
	enc     bool
}

// VH_C09_Emit: an ad with two attributes of arbitrary (identifier) names carrying
// canary values is serialised by the real putClassAdToMessageWithOptions under
// every option combination, whitelist, encrypted-attribute list, peer version and
// stream state (no key / keyed and encrypting / keyed but not encrypting). A
// private attribute's value is handed to the wire at all only when the caller
// opted in and did not also ask for exclusion (reserved-prefix names in addition
// only for peers >= 9.9.0 or of unknown version); on a keyed stream it only ever
// leaves inside a frame flushed while the stream is encrypting.
//
//verif:unwind 8
func VH_C09_Emit() { vhEmit(false) }

// VH_C09_EmitBoth: both attribute names arbitrary, all six option bits, every
// whitelist shape (thorough tier).
//
//verif:unwind 8
//verif:tier thorough
func VH_C09_EmitBoth() { vhEmit(true) }

func vhEmit(full bool) {
	n1 := vString("name1", 13)
	n2 := "Owner"
	if full {
		n2 = vString("name2", 13)
	}
	vAssume(vAnd(vhIdentRE.MatchString(n1), vhIdentRE.MatchString(n2)))
	vAssume(!strings.EqualFold(n1, n2))
	ad := classad.New()
	_ = ad.Set(n1, "CANARY-ONE")
	_ = ad.Set(n2, "CANARY-TWO")
	cfg := &PutClassAdConfig{Options: PutClassAdOptions(vInt("options"))}
	vAssume(cfg.Options >= 0 && cfg.Options < 64)
	if full {
		switch vChoice("whitelist", 4) {
		case 1:
			cfg.Whitelist = []string{n1}
		case 2:
			cfg.Whitelist = []string{n2}
		case 3:
			cfg.Whitelist = []string{n1, n2}
		}
	} else {
		// quick tier: only the privacy bits and the no-types bit vary
		vAssume(cfg.Options&^(PutClassAdNoPrivate|PutClassAdIncludePrivate|PutClassAdNoTypes) == 0)
		if vBool("whitelisted") {
			cfg.Whitelist = []string{n2, n1}
		}
	}
	if vBool("encAttr1") {
		cfg.EncryptedAttrs = []string{n1}
	}
	hasVersion := vBool("hasVersion")
	if hasVersion {
		cfg.PeerVersion = &HTCondorVersion{Major: vInt("vmaj"), Minor: vInt("vmin"), Patch: vInt("vpat")}
		vAssume(cfg.PeerVersion.Major >= 0 && cfg.PeerVersion.Major < 100 && cfg.PeerVersion.Minor >= 0 && cfg.PeerVersion.Minor < 100 && cfg.PeerVersion.Patch >= 0 && cfg.PeerVersion.Patch < 100)
	}
	conn := &vhNetConn{}
	st := stream.NewStream(conn)
	mode := vChoice("stream", 3) // 0 no key, 1 keyed+encrypting, 2 keyed, not encrypting
	if mode > 0 {
		if st.SetSymmetricKey(vBlob("key", 32)) != nil {
			vAssume(false)
		}
		if mode == 2 {
			st.SetCryptoMode(false)
		}
	}
	var puts []vhPut
	VerifHook_Message_PutString = func(m *Message, ctx context.Context, s string) error {
		puts = append(puts, vhPut{s: s})
		return m.PutString__orig(ctx, s)
	}
	VerifHook_Message_FlushFrame = func(m *Message, ctx context.Context, eom bool) error {
		for i := range puts {
			if !puts[i].flushed {
				puts[i].flushed = true
				puts[i].enc = st.IsEncrypted()
			}
		}
		return m.FlushFrame__orig(ctx, eom)
	}
	defer func() {
		VerifHook_Message_PutString = nil
		VerifHook_Message_FlushFrame = nil
	}()
	m := NewMessageForStream(st)
	if putClassAdToMessageWithOptions(m, ad, cfg, vhCtx) != nil || m.FinishMessage(vhCtx) != nil {
		vAssert(false, "serialisation-succeeds")
		return
	}
	vCover("serialised")
	optIn := cfg.Options&PutClassAdIncludePrivate != 0 && cfg.Options&PutClassAdNoPrivate == 0
	oldPeer := hasVersion && !(cfg.PeerVersion.Major > 9 || (cfg.PeerVersion.Major == 9 && cfg.PeerVersion.Minor >= 9))
	names := [2]string{n1, n2}
	canaries := [2]string{"CANARY-ONE", "CANARY-TWO"}
	for k := 0; k < 2; k++ {
		p1, p2 := vhPrivateV1(names[k]), vhPrivateV2(names[k])
		if !p1 && !p2 {
			continue
		}
		vCover("private-attribute-present")
		for _, p := range puts {
			if !strings.Contains(p.s, canaries[k]) {
				continue
			}
			vCover("private-attribute-emitted")
			vAssert(optIn, "private-attribute-only-with-opt-in")
			if p2 {
				vAssert(!oldPeer, "reserved-prefix-attribute-withheld-from-old-peers")
			}
			vAssert(p.flushed, "every-string-flushed")
			if mode > 0 {
				vAssert(p.enc, "private-value-leaves-only-in-an-encrypted-frame-on-a-keyed-stream")
			}
		}
	}
	vAssert(st.IsEncrypted() == (mode == 1), "stream-mode-restored")
}

package message

import "math"

func init() {
	vRegister("VH_C14_DoubleDecode", VH_C14_DoubleDecode)
	vRegister("VH_C14_DoubleEncode", VH_C14_DoubleEncode)
}

// VH_C14_DoubleDecode: the receiver's view of the documented double format -- two
// sign-extended 8-byte integers, fraction (scaled by 2^31-1) and binary exponent --
// for every fraction and every exponent in [-1100, 1100]: GetDouble returns exactly
// ldexp(fraction / (2^31-1), exponent), bit for bit (in particular a finite value
// whenever that expression is finite). The reference is the format text written
// out with math.Ldexp; both sides are floating-point terms over the same two
// symbolic integers.
//
//verif:logic ALL
//verif:unwind 70
func VH_C14_DoubleDecode() {
	fi := vInt32("frac")
	ex := vInt32("exp")
	vAssume(ex >= -1100 && ex <= 1100)
	r := &vhStream{}
	wire := append(vhBE64(uint64(int64(fi))), vhBE64(uint64(int64(ex)))...)
	r.feed(wire, true)
	m := NewMessageFromStream(r)
	got, err := m.GetDouble(vhCtx)
	vAssert(err == nil, "well-formed-double-decodes")
	if err != nil {
		return
	}
	want := math.Ldexp(float64(fi)/2147483647.0, int(ex))
	vAssert(math.Float64bits(got) == math.Float64bits(want), "decoded-double-is-ldexp-of-scaled-fraction-and-exponent")
	vCover("double-decoded")
}

// VH_C14_DoubleEncode: the sender's side for every finite, non-zero-exponent
// double: the two integers on the wire are the sign-extended 32-bit values
// int32(frexp-fraction * (2^31-1)) and the frexp exponent, in that order.
//
//verif:logic ALL
//verif:unwind 70
func VH_C14_DoubleEncode() {
	bits := vUint64("bits")
	v := math.Float64frombits(bits)
	vAssume(!math.IsNaN(v) && !math.IsInf(v, 0))
	w := &vhStream{}
	m := NewMessageForStream(w)
	if m.PutDouble(vhCtx, v) != nil || m.FinishMessage(vhCtx) != nil {
		vAssume(false)
	}
	frac, e := math.Frexp(v)
	want := append(vhBE64(uint64(int64(int32(frac*2147483647.0)))), vhBE64(uint64(int64(int32(e))))...)
	vAssertBytesEqual(w.all(), want, "double-wire-layout-is-two-sign-extended-integers")
	vCover("double-encoded")
}

package message

import (
	"context"
	"errors"
	"fmt"
	"io"
)

func init() {
	vRegister("VH_C02_TypedReassembly", VH_C02_TypedReassembly)
}

// vhCutStream serves a fixed list of frames and then fails the way the real
// stream does when the connection ends or a frame is rejected.
type vhCutStream struct {
	frames [][]byte
	eoms   []bool
	ri     int
	errEOF bool // the failure wraps io.EOF (clean connection end on a frame boundary)
}

func (s *vhCutStream) ReadFrame(ctx context.Context) ([]byte, bool, error) {
	if s.ri >= len(s.frames) {
		if s.errEOF {
			return nil, false, fmt.Errorf("failed to read frame header: %w", io.EOF)
		}
		return nil, false, errors.New("failed to decrypt message")
	}
	f, e := s.frames[s.ri], s.eoms[s.ri]
	s.ri++
	return f, e, nil
}
func (s *vhCutStream) WriteFrame(ctx context.Context, data []byte, isEOM bool) error { return nil }
func (s *vhCutStream) IsEncrypted() bool                                           { return false }

// VH_C02_TypedReassembly: the typed readers above the stream (ensureData,
// GetBytes, GetRemainingBytes, GetString) when the stream delivers some frames
// of a message and then fails (connection ended on a frame boundary, or a frame
// rejected) before any end-of-message frame: the reader reports an error; it
// never hands the application a truncated message as if it were complete. With
// an end-of-message frame present the data delivered is exactly the frames'
// concatenation.
//
//verif:unwind 10
func VH_C02_TypedReassembly() {
	s := &vhCutStream{errEOF: vBool("fails_with_eof")}
	f0 := vBytes("f0", 3)
	f1 := vBytes("f1", 3)
	nf := vChoice("nframes", 3)
	complete := vBool("complete")
	if nf >= 1 {
		s.frames = append(s.frames, f0)
		s.eoms = append(s.eoms, complete && nf == 1)
	}
	if nf >= 2 {
		s.frames = append(s.frames, f1)
		s.eoms = append(s.eoms, complete)
	}
	hasEOM := complete && nf >= 1
	var all []byte
	if nf >= 1 {
		all = append(all, f0...)
	}
	if nf >= 2 {
		all = append(all, f1...)
	}
	m := NewMessageFromStream(s)
	switch vChoice("reader", 3) {
	case 0:
		got, err := m.GetRemainingBytes(vhCtx)
		if !hasEOM {
			vCover("truncated-message")
			vAssert(err != nil, "truncated-message-is-an-error-not-a-short-message")
		} else {
			vCover("complete-message")
			vAssert(err == nil, "complete-message-delivered")
			if err == nil {
				vAssertBytesEqual(got, all, "delivered-bytes-are-the-frames-in-order")
			}
		}
	case 1:
		n := vInt("want")
		vAssume(n >= 1 && n <= 7)
		got, err := m.GetBytes(vhCtx, n)
		if err == nil {
			vAssert(n <= len(all), "no-more-than-was-sent")
			if n <= len(all) {
				vAssertBytesEqual(got, all[:n], "delivered-bytes-are-a-prefix-in-order")
			}
		} else if !hasEOM && n > len(all) {
			vAssert(err != io.EOF, "connection-failure-is-not-reported-as-end-of-message")
		}
	case 2:
		_, err := m.GetString(vhCtx)
		nul := false
		for _, b := range all {
			if b == 0 {
				nul = true
			}
		}
		if !hasEOM && !nul {
			vAssert(err != nil, "unterminated-string-on-a-cut-message-is-an-error")
		}
	}
}

package message

func init() {
	vRegister("VH_C01_LongStringDecode", VH_C01_LongStringDecode)
}

// VH_C01_LongStringDecode: the receiving half of "the typed-message layer accepts
// values of any length, splitting them across frames itself" for length-prefixed
// strings (encrypted framing). The wire image a sender produces for a string of N
// bytes, N anywhere in 1 .. 2 MiB, -- the 8-byte length prefix, then the bytes in
// two frames of arbitrary sizes up to 1 MiB each -- is read by the real GetString:
// it is accepted, whatever N is, and has the announced length (less a trailing
// NUL), and the integer that follows is the next value.
//
//verif:unwind 8
func VH_C01_LongStringDecode() {
	n := vInt("n")
	a := vInt("first_frame")
	vAssume(n >= 1 && n <= 2<<20 && a >= 0 && a <= 1<<20 && a <= n && n-a <= 1<<20)
	r := &vhStream{enc: true}
	r.feed(vhBE64(uint64(n)), false)
	d1 := vBlob("d1", a)
	d2 := vBlob("d2", n-a)
	if a > 0 {
		vAssume(d1[0] != BinNullChar)
		r.feed(d1, false)
	} else {
		vAssume(d2[0] != BinNullChar)
	}
	r.feed(d2, false)
	tail := vInt64("tail")
	r.feed(vhBE64(uint64(tail)), true)
	m := NewMessageFromStream(r)
	s, err := m.GetString(vhCtx)
	vAssert(err == nil, "receiver-accepts-a-string-of-any-length")
	if err != nil {
		return
	}
	vAssert(len(s) == n || len(s) == n-1, "large-string-has-its-length")
	g, gerr := m.GetInt64(vhCtx)
	vAssert(gerr == nil && g == tail, "following-int-identical")
	vCover("long-string-decoded")
}

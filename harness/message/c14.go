package message

func init() {
	vRegister("VH_C14_Int", VH_C14_Int)
	vRegister("VH_C14_String", VH_C14_String)
	vRegister("VH_C14_Seq", VH_C14_Seq)
	vRegister("VH_C14_NulTruncation", VH_C14_NulTruncation)
}

// VH_C14_Int: every integer Put* emits the 8-byte big-endian two's-complement
// rendering of the value widened to 64 bits (sign/zero extension per type), a
// char is one byte, and the matching Get* returns the value for every 2-frame cut
// of those bytes.
func VH_C14_Int() {
	w := &vhStream{}
	m := NewMessageForStream(w)
	r := &vhStream{}
	kind := vChoice("kind", 5)
	var want []byte
	var i64 int64
	var i32 int32
	var u32 uint32
	var ch byte
	switch kind {
	case 0:
		i64 = vInt64("v")
		if m.PutInt(vhCtx, int(i64)) != nil {
			vAssume(false)
		}
		want = vhBE64(uint64(i64))
	case 1:
		i64 = vInt64("v")
		if m.PutInt64(vhCtx, i64) != nil {
			vAssume(false)
		}
		want = vhBE64(uint64(i64))
	case 2:
		i32 = vInt32("v32")
		if m.PutInt32(vhCtx, i32) != nil {
			vAssume(false)
		}
		want = vhBE64(uint64(int64(i32)))
	case 3:
		u32 = vUint32("u32")
		if m.PutUint32(vhCtx, u32) != nil {
			vAssume(false)
		}
		want = vhBE64(uint64(u32))
	case 4:
		ch = vByte("ch")
		if m.PutChar(vhCtx, ch) != nil {
			vAssume(false)
		}
		want = []byte{ch}
	}
	if m.FinishMessage(vhCtx) != nil {
		vAssume(false)
	}
	vAssert(len(w.written) == 1 && w.weom[0], "single-eom-frame")
	vAssertBytesEqual(w.all(), want, "reference-byte-layout")
	vhRecut(r, w.all(), "cut")
	rm := NewMessageFromStream(r)
	switch kind {
	case 0:
		g, err := rm.GetInt(vhCtx)
		vAssert(err == nil && int64(g) == i64, "int-roundtrip-any-cut")
	case 1:
		g, err := rm.GetInt64(vhCtx)
		vAssert(err == nil && g == i64, "int64-roundtrip-any-cut")
	case 2:
		g, err := rm.GetInt32(vhCtx)
		vAssert(err == nil && g == i32, "int32-roundtrip-any-cut")
	case 3:
		g, err := rm.GetUint32(vhCtx)
		vAssert(err == nil && g == u32, "uint32-roundtrip-any-cut")
	case 4:
		g, err := rm.GetChar(vhCtx)
		vAssert(err == nil && g == ch, "char-roundtrip-any-cut")
	}
	vCover("typed-int-roundtrip")
}

func vhNoNUL(s string) {
	for i := 0; i < len(s); i++ {
		vAssume(s[i] != 0)
	}
}

// VH_C14_String: a NUL-free string (<= 6 bytes) is emitted as bytes+NUL, with an
// 8-byte big-endian length prefix (len+1) on encrypted streams; GetString and
// GetStringWithMaxSize return it for every 2-frame cut.
//
//verif:unwind 10
func VH_C14_String() {
	enc := vBool("enc")
	s := vString("s", 6)
	vhNoNUL(s)
	if enc && len(s) > 0 {
		vAssume(s[0] != BinNullChar) // the in-band NULL-string marker of the format
	}
	w := &vhStream{enc: enc}
	m := NewMessageForStream(w)
	viaBytes := vBool("viaBytes")
	var err error
	if viaBytes {
		err = m.PutStringBytes(vhCtx, []byte(s))
	} else {
		err = m.PutString(vhCtx, s)
	}
	if err != nil || m.FinishMessage(vhCtx) != nil {
		vAssume(false)
	}
	var want []byte
	if enc {
		want = append(want, vhBE64(uint64(len(s)+1))...)
	}
	want = append(want, s...)
	want = append(want, 0)
	vAssertBytesEqual(w.all(), want, "reference-string-layout")
	r := &vhStream{enc: enc}
	vhRecut(r, w.all(), "cut")
	rm := NewMessageFromStream(r)
	if vBool("capped") {
		g, gerr := rm.GetStringWithMaxSize(vhCtx, 64)
		vAssert(gerr == nil, "capped-get-ok")
		vAssertStrEqual(g, s, "capped-string-roundtrip-any-cut")
	} else {
		g, gerr := rm.GetString(vhCtx)
		vAssert(gerr == nil, "get-ok")
		vAssertStrEqual(g, s, "string-roundtrip-any-cut")
	}
	vCover("string-roundtrip")
}

// VH_C14_NulTruncation: a string with an embedded NUL is truncated at it on send
// by both string writers, on plain and encrypted streams; on an encrypted stream
// the length prefix counts the truncated text (plus terminator), so the value and
// whatever follows it decode correctly.
//
//verif:unwind 10
func VH_C14_NulTruncation() {
	enc := vBool("enc")
	s := vString("s", 5)
	k := vInt("k")
	vAssume(k >= 0 && k < len(s))
	vAssume(s[k] == 0)
	for i := 0; i < k; i++ {
		vAssume(s[i] != 0)
	}
	if enc && k > 0 {
		vAssume(s[0] != BinNullChar)
	}
	w := &vhStream{enc: enc}
	m := NewMessageForStream(w)
	var err error
	if vBool("viaBytes") {
		err = m.PutStringBytes(vhCtx, []byte(s))
	} else {
		err = m.PutString(vhCtx, s)
	}
	tail := vInt64("tail")
	if err != nil || m.PutInt64(vhCtx, tail) != nil || m.FinishMessage(vhCtx) != nil {
		vAssume(false)
	}
	var want []byte
	if enc {
		want = append(want, vhBE64(uint64(k+1))...)
	}
	want = append(want, s[:k]...)
	want = append(want, 0)
	want = append(want, vhBE64(uint64(tail))...)
	vAssertBytesEqual(w.all(), want, "truncated-at-first-nul")
	r := &vhStream{enc: enc}
	r.feed(w.all(), true)
	rm := NewMessageFromStream(r)
	g, gerr := rm.GetString(vhCtx)
	vAssert(gerr == nil, "truncated-string-decodes")
	vAssertStrEqual(g, s[:k], "truncated-string-value")
	gt, terr := rm.GetInt64(vhCtx)
	vAssert(terr == nil && gt == tail, "following-value-intact")
	vCover("nul-truncated")
}

// VH_C14_Seq: int, string, char, int32 in one message with one symbolic cut.
//
//verif:unwind 10
func VH_C14_Seq() {
	enc := vBool("enc")
	a := vInt64("a")
	s := vString("s", 4)
	vhNoNUL(s)
	if enc && len(s) > 0 {
		vAssume(s[0] != BinNullChar)
	}
	c := vByte("c")
	b := vInt32("b")
	w := &vhStream{enc: enc}
	m := NewMessageForStream(w)
	if m.PutInt64(vhCtx, a) != nil || m.PutString(vhCtx, s) != nil || m.PutChar(vhCtx, c) != nil || m.PutInt32(vhCtx, b) != nil || m.FinishMessage(vhCtx) != nil {
		vAssume(false)
	}
	r := &vhStream{enc: enc}
	vhRecut(r, w.all(), "cut")
	rm := NewMessageFromStream(r)
	ga, e1 := rm.GetInt64(vhCtx)
	gs, e2 := rm.GetString(vhCtx)
	gc, e3 := rm.GetChar(vhCtx)
	gb, e4 := rm.GetInt32(vhCtx)
	vAssert(e1 == nil && e2 == nil && e3 == nil && e4 == nil, "sequence-decodes")
	vAssert(ga == a && gc == c && gb == b, "scalars-roundtrip")
	vAssertStrEqual(gs, s, "string-in-sequence-roundtrip")
	vCover("sequence-roundtrip")
}

package message

import (
	"context"
	"io"
)

var vhCtx = context.Background()

// vhStream is a scripted StreamInterface: frames to be read are served in
// order, written frames are captured.
type vhStream struct {
	frames  [][]byte
	eoms    []bool
	ri      int
	written [][]byte
	weom    []bool
	enc     bool
	nread   int
}

func (s *vhStream) ReadFrame(ctx context.Context) ([]byte, bool, error) {
	if s.ri >= len(s.frames) {
		return nil, false, io.ErrUnexpectedEOF
	}
	f, e := s.frames[s.ri], s.eoms[s.ri]
	s.ri++
	s.nread += len(f)
	return f, e, nil
}

func (s *vhStream) WriteFrame(ctx context.Context, data []byte, isEOM bool) error {
	q := make([]byte, len(data))
	copy(q, data)
	s.written = append(s.written, q)
	s.weom = append(s.weom, isEOM)
	return nil
}

func (s *vhStream) IsEncrypted() bool { return s.enc }

func (s *vhStream) feed(f []byte, eom bool) {
	s.frames = append(s.frames, f)
	s.eoms = append(s.eoms, eom)
}

// vhAll concatenates the written frames.
func (s *vhStream) all() []byte {
	var out []byte
	for _, f := range s.written {
		out = append(out, f...)
	}
	return out
}

// vhRecut feeds wire as two frames cut at a symbolic position.
func vhRecut(dst *vhStream, wire []byte, name string) {
	k := vInt(name)
	vAssume(k >= 0 && k <= len(wire))
	dst.feed(wire[:k], false)
	dst.feed(wire[k:], true)
}

func vhBE64(v uint64) []byte {
	return []byte{byte(v >> 56), byte(v >> 48), byte(v >> 40), byte(v >> 32), byte(v >> 24), byte(v >> 16), byte(v >> 8), byte(v)}
}

package message

import (
	"context"
	"io"

	"github.com/PelicanPlatform/classad/classad"
)

func init() {
	vRegister("VH_C13_TypedDecode", VH_C13_TypedDecode)
	vRegister("VH_C13_CappedString", VH_C13_CappedString)
	vRegister("VH_C13_StringDecode", VH_C13_StringDecode)
	vRegister("VH_C13_ClassAdReaders", VH_C13_ClassAdReaders)
	vRegister("VH_C13_CappedConsumption", VH_C13_CappedConsumption)
	vRegister("VH_C13_AnnouncedLength", VH_C13_AnnouncedLength)
	vRegister("VH_C13_BoundedFraming", VH_C13_BoundedFraming)
}

// vhAdversary scripts up to three frames of symbolic length (<= maxLen each),
// symbolic content and symbolic end-of-message flags, and caps allocations at the
// total number of bytes delivered plus a small constant.
func vhAdversary(enc bool, nf int, maxLen int) (*vhStream, int) {
	r := &vhStream{enc: enc}
	names := [3]string{"f0", "f1", "f2"}
	enames := [3]string{"e0", "e1", "e2"}
	total := 0
	for i := 0; i < nf; i++ {
		f := vBytes(names[i], maxLen)
		r.feed(f, vBool(enames[i]))
		total += len(f)
	}
	vAllocLimit(total + 64 + MaxFrameSize)
	return r, total
}

// VH_C13_TypedDecode: each typed reader of the message layer over three
// adversarial frames (plain and encrypted mode): no panic, no allocation beyond
// the bytes delivered plus a constant, every loop ends within input size + 4
// iterations (the unwinding bound), and a second read after the first still
// behaves.
//
//verif:unwind 12
func VH_C13_TypedDecode() {
	enc := vBool("enc")
	r, _ := vhAdversary(enc, 3, 10)
	m := NewMessageFromStream(r)
	op := vChoice("op", 6)
	var err error
	switch op {
	case 0:
		_, err = m.GetChar(vhCtx)
	case 1:
		_, err = m.GetInt(vhCtx)
	case 2:
		_, err = m.GetInt32(vhCtx)
	case 3:
		_, err = m.GetUint32(vhCtx)
	case 4:
		nb := vInt("nb")
		vAssume(nb >= -4 && nb <= 40)
		var b []byte
		b, err = m.GetBytes(vhCtx, nb)
		if err == nil && nb > 0 {
			vAssert(len(b) == nb, "getbytes-returns-requested-count")
		}
	case 5:
		_, err = m.GetInt64(vhCtx)
	}
	if err != nil {
		vCover("decode-error")
	} else {
		vCover("decode-ok")
	}
	_, _ = m.GetChar(vhCtx)
	_ = m.Finished()
}

// VH_C13_StringDecode: GetString / SkipString / GetRemainingBytes over two
// adversarial frames (<= 6 bytes each, so every byte-wise loop must end within
// 16 iterations), followed by a second read.
//
//verif:unwind 16
func VH_C13_StringDecode() {
	enc := vBool("enc")
	r, _ := vhAdversary(enc, 2, 6)
	m := NewMessageFromStream(r)
	var err error
	switch vChoice("op", 3) {
	case 0:
		_, err = m.GetString(vhCtx)
	case 1:
		err = m.SkipString(vhCtx)
	case 2:
		_, err = m.GetRemainingBytes(vhCtx)
	}
	if err != nil {
		vCover("decode-error")
	} else {
		vCover("decode-ok")
	}
	_, _ = m.GetChar(vhCtx)
}

// VH_C13_CappedString: GetStringWithMaxSize with a symbolic cap over adversarial
// frames: never consumes more than cap + 16 bytes beyond what was buffered by
// whole frames, never returns more than cap bytes, and an announced or actual
// length above the cap yields an error.
//
//verif:unwind 24
func VH_C13_CappedString() {
	enc := vBool("enc")
	r, _ := vhAdversary(enc, 2, 9)
	m := NewMessageFromStream(r)
	cap := vInt("cap")
	vAssume(cap >= -2 && cap <= 8)
	s, err := m.GetStringWithMaxSize(vhCtx, cap)
	if cap <= 0 {
		vAssert(len(s) == 0 && err == nil && r.ri == 0, "non-positive-cap-reads-nothing")
		vCover("cap-nonpositive")
		return
	}
	vAssert(len(s) <= cap, "result-within-cap")
	if err != nil {
		vCover("capped-error")
	} else {
		vCover("capped-ok")
	}
}

// VH_C13_ClassAdReaders: the raw-text, skipping and bounded parsing ClassAd
// readers over two adversarial frames (<= 9 bytes each): no panic, allocations
// bounded by the bytes delivered, and every loop - in particular the loop over
// the peer-announced expression count - ends within input size + 4 iterations
// (a count that is not backed by data must produce an error, not a spin).
//
//verif:unwind 24
func VH_C13_ClassAdReaders() {
	enc := vBool("enc")
	// first frame: exactly the 8-byte expression count; second frame: <= 4 bytes
	r := &vhStream{enc: enc}
	r.feed(vBlob("count", 8), vBool("e0"))
	rest := vBytes("rest", 4)
	r.feed(rest, true)
	total := 8 + len(rest)
	vAllocLimit(total + 64 + MaxFrameSize)
	pfNames := [16]string{"pf0", "pf1", "pf2", "pf3", "pf4", "pf5", "pf6", "pf7", "pf8", "pf9", "pf10", "pf11", "pf12", "pf13", "pf14", "pf15"}
	npf := 0
	VerifHook_parseAndInsertExpression = func(ad *classad.ClassAd, s string) error {
		if npf < len(pfNames) {
			npf++
			if vBool(pfNames[npf-1]) {
				return io.ErrUnexpectedEOF
			}
		}
		return nil
	}
	// count string-level reads: each consumes at least one byte unless the message is exhausted
	reads := 0
	VerifHook_Message_GetString = func(m *Message, ctx context.Context) (string, error) {
		reads++
		return m.GetString__orig(ctx)
	}
	VerifHook_Message_SkipString = func(m *Message, ctx context.Context) error {
		reads++
		return m.SkipString__orig(ctx)
	}
	VerifHook_Message_GetStringWithMaxSize = func(m *Message, ctx context.Context, n int) (string, error) {
		reads++
		return m.GetStringWithMaxSize__orig(ctx, n)
	}
	defer func() {
		VerifHook_parseAndInsertExpression = nil
		VerifHook_Message_GetString = nil
		VerifHook_Message_SkipString = nil
		VerifHook_Message_GetStringWithMaxSize = nil
	}()
	m := NewMessageFromStream(r)
	var err error
	switch vChoice("reader", 3) {
	case 0:
		_, err = m.GetClassAdRaw(vhCtx)
	case 1:
		err = m.SkipClassAdRaw(vhCtx)
	case 2:
		cap := vInt("cap")
		vAssume(cap >= 0 && cap <= 12)
		_, err = getClassAdFromMessageWithMaxSize(m, cap, vhCtx)
	}
	vTag("reads", reads)
	vAssert(reads <= total+4, "string-reads-bounded-by-bytes-delivered")
	if err != nil {
		vCover("reader-error")
	} else {
		vCover("reader-ok")
	}
}

// VH_C13_CappedConsumption: a capped string read on an encrypted stream whose
// peer announces an arbitrary length and then trickles data in small frames: the
// reader pulls no more than the length prefix, the cap and one frame of slack
// from the stream - it does not buffer the oversized value before failing.
//
//verif:unwind 16
func VH_C13_CappedConsumption() {
	r := &vhStream{enc: true}
	r.feed(vBlob("prefix", 8), false)
	names := [3]string{"t0", "t1", "t2"}
	for i := 0; i < 3; i++ {
		r.feed(vBytes(names[i], 4), i == 2)
	}
	cap := vInt("cap")
	vAssume(cap >= 1 && cap <= 3)
	m := NewMessageFromStream(r)
	s, err := m.GetStringWithMaxSize(vhCtx, cap)
	vAssert(len(s) <= cap, "result-within-cap")
	vAssert(r.nread <= 8+cap+4, "consumption-bounded-by-cap-not-by-announced-length")
	if err != nil {
		vCover("capped-error")
	} else {
		vCover("capped-ok")
	}
}

// VH_C13_AnnouncedLength: a length-prefixed string (encrypted framing) whose
// announced length is arbitrary while the data trickles in: the 8-byte prefix in a
// frame of its own, then one or two short frames (<= 4 bytes each, the first of
// them not the last of the message). Nothing is reserved or allocated on the
// strength of the announced length alone: allocations stay within the bytes
// delivered plus a constant, there is no panic, and a length that the data does
// not back is an error.
//
//verif:unwind 16
func VH_C13_AnnouncedLength() {
	r := &vhStream{enc: true}
	r.feed(vBlob("prefix", 8), false)
	f1 := vBytes("f1", 4)
	vAssume(len(f1) >= 1)
	r.feed(f1, false)
	f2 := vBytes("f2", 4)
	r.feed(f2, true)
	total := 8 + len(f1) + len(f2)
	vAllocLimit(total + 64 + MaxFrameSize)
	m := NewMessageFromStream(r)
	var err error
	var s string
	if vBool("skip") {
		err = m.SkipString(vhCtx)
	} else {
		s, err = m.GetString(vhCtx)
	}
	if err != nil {
		vCover("announced-length-not-backed-by-data")
	} else {
		vCover("string-decoded")
		vAssert(len(s) <= len(f1)+len(f2), "no-more-than-was-delivered")
	}
}

// VH_C13_BoundedFraming: the size cap of the bounded ClassAd reader (used for
// every handshake ad) counts the ad's bytes, however they are framed: one and the
// same ad (two expressions, type names; plain or length-prefixed strings) is read
// under an arbitrary cap (1..64) once from a single frame and once from frames of
// k bytes (k = 1..4): same verdict, and when the cap is exceeded the reader has
// stopped pulling frames (it has not consumed the whole oversized ad).
//
//verif:unwind 64
func VH_C13_BoundedFraming() {
	enc := vBool("enc")
	VerifHook_parseAndInsertExpression = func(ad *classad.ClassAd, s string) error { return nil }
	defer func() { VerifHook_parseAndInsertExpression = nil }()
	w := &vhStream{enc: enc}
	wm := NewMessageForStream(w)
	if wm.PutInt(vhCtx, 2) != nil || wm.PutString(vhCtx, "Alpha = 1") != nil || wm.PutString(vhCtx, "Beta = \"two\"") != nil ||
		wm.PutString(vhCtx, "Machine") != nil || wm.PutString(vhCtx, "Job") != nil || wm.FinishMessage(vhCtx) != nil {
		vAssume(false)
	}
	wire := w.all()
	capBytes := vInt("cap")
	vAssume(capBytes >= 1 && capBytes <= 64)
	k := 1 + vChoice("frame_bytes", 4)
	one := &vhStream{enc: enc}
	one.feed(wire, true)
	_, err1 := getClassAdFromMessageWithMaxSize(NewMessageFromStream(one), capBytes, vhCtx)
	many := &vhStream{enc: enc}
	for o := 0; o < len(wire); o += k {
		e := o + k
		if e > len(wire) {
			e = len(wire)
		}
		many.feed(wire[o:e], e == len(wire))
	}
	_, errN := getClassAdFromMessageWithMaxSize(NewMessageFromStream(many), capBytes, vhCtx)
	vAssert((err1 == nil) == (errN == nil), "bounded-readers-verdict-does-not-depend-on-the-framing")
	if errN != nil {
		vCover("cap-exceeded")
	} else {
		vCover("within-cap")
	}
}

package message

func init() {
	vRegister("VH_C13_TypedDecode", VH_C13_TypedDecode)
	vRegister("VH_C13_CappedString", VH_C13_CappedString)
	vRegister("VH_C13_StringDecode", VH_C13_StringDecode)
}

// vhAdversary scripts up to three frames of symbolic length (<= maxLen each),
// symbolic content and symbolic end-of-message flags, and caps allocations at the
// total number of bytes delivered plus a small constant.
func vhAdversary(enc bool, nf int, maxLen int) (*vhStream, int) {
	r := &vhStream{enc: enc}
	names := [3]string{"f0", "f1", "f2"}
	enames := [3]string{"e0", "e1", "e2"}
	total := 0
	for i := 0; i < nf; i++ {
		f := vBytes(names[i], maxLen)
		r.feed(f, vBool(enames[i]))
		total += len(f)
	}
	vAllocLimit(total + 64)
	return r, total
}

// VH_C13_TypedDecode: each typed reader of the message layer over three
// adversarial frames (plain and encrypted mode): no panic, no allocation beyond
// the bytes delivered plus a constant, every loop ends within input size + 4
// iterations (the unwinding bound), and a second read after the first still
// behaves.
//
//verif:unwind 12
func VH_C13_TypedDecode() {
	enc := vBool("enc")
	r, _ := vhAdversary(enc, 3, 10)
	m := NewMessageFromStream(r)
	op := vChoice("op", 6)
	var err error
	switch op {
	case 0:
		_, err = m.GetChar(vhCtx)
	case 1:
		_, err = m.GetInt(vhCtx)
	case 2:
		_, err = m.GetInt32(vhCtx)
	case 3:
		_, err = m.GetUint32(vhCtx)
	case 4:
		nb := vInt("nb")
		vAssume(nb >= -4 && nb <= 40)
		var b []byte
		b, err = m.GetBytes(vhCtx, nb)
		if err == nil && nb > 0 {
			vAssert(len(b) == nb, "getbytes-returns-requested-count")
		}
	case 5:
		_, err = m.GetInt64(vhCtx)
	}
	if err != nil {
		vCover("decode-error")
	} else {
		vCover("decode-ok")
	}
	_, _ = m.GetChar(vhCtx)
	_ = m.Finished()
}

// VH_C13_StringDecode: GetString / SkipString / GetRemainingBytes over two
// adversarial frames (<= 6 bytes each, so every byte-wise loop must end within
// 16 iterations), followed by a second read.
//
//verif:unwind 16
func VH_C13_StringDecode() {
	enc := vBool("enc")
	r, _ := vhAdversary(enc, 2, 6)
	m := NewMessageFromStream(r)
	var err error
	switch vChoice("op", 3) {
	case 0:
		_, err = m.GetString(vhCtx)
	case 1:
		err = m.SkipString(vhCtx)
	case 2:
		_, err = m.GetRemainingBytes(vhCtx)
	}
	if err != nil {
		vCover("decode-error")
	} else {
		vCover("decode-ok")
	}
	_, _ = m.GetChar(vhCtx)
}

// VH_C13_CappedString: GetStringWithMaxSize with a symbolic cap over adversarial
// frames: never consumes more than cap + 16 bytes beyond what was buffered by
// whole frames, never returns more than cap bytes, and an announced or actual
// length above the cap yields an error.
//
//verif:unwind 24
func VH_C13_CappedString() {
	enc := vBool("enc")
	r, _ := vhAdversary(enc, 2, 9)
	m := NewMessageFromStream(r)
	cap := vInt("cap")
	vAssume(cap >= -2 && cap <= 8)
	s, err := m.GetStringWithMaxSize(vhCtx, cap)
	if cap <= 0 {
		vAssert(len(s) == 0 && err == nil && r.ri == 0, "non-positive-cap-reads-nothing")
		vCover("cap-nonpositive")
		return
	}
	vAssert(len(s) <= cap, "result-within-cap")
	if err != nil {
		vCover("capped-error")
	} else {
		vCover("capped-ok")
	}
}

package message

import (
	"strings"

	"github.com/PelicanPlatform/classad/classad"
	"github.com/bbockelm/cedar/stream"
)

func init() {
	vRegister("VH_C08_SendRoundTrip", VH_C08_SendRoundTrip)
	vRegister("VH_C09_Reassemble", VH_C09_Reassemble)
}

// VH_C08_SendRoundTrip: the sender's side of the ClassAd wire format against all
// three receivers. An ad with one attribute of an arbitrary identifier name (any
// case, possibly private, possibly spelled like an attribute the sender adds
// itself), a second fixed attribute and optional type names is written by the
// real putClassAdToMessageWithOptions under every option combination that keeps
// the type names (server time, privacy bits ...), followed by an integer, onto a
// real stream (no key / encrypting / keyed but not encrypting); the real parsing
// receiver (expression parser replaced by a recorder), the raw-text receiver and
// the skipping receiver then read the emitted frames. Every receiver accepts and
// leaves the following integer as the next value; the parsing receiver is handed
// exactly the sender's transmitted attributes, each once, as "name = rendered
// value" (plus the fresh ServerTime when asked for), and the type names arrive.
//
//verif:unwind 48
func VH_C08_SendRoundTrip() { vhSendRoundTrip(false) }

// VH_C09_Reassemble: the same round trip read for C09: with private attributes in
// the ad (one fixed, one of arbitrary name, adjacent or not), opted in or not, on
// each of the three stream states, the receiver still reassembles the ad.
//
//verif:unwind 48
func VH_C09_Reassemble() { vhSendRoundTrip(true) }

func vhSendRoundTrip(privateOnly bool) {
	mode := vChoice("stream", 3) // 0 no key, 1 keyed+encrypting, 2 keyed, not encrypting
	if privateOnly {
		// C09's clause is about streams that hold a key: the unkeyed stream and the
		// short attribute names are left to the C08 run of the same body
		vAssume(mode != 0)
	}
	key := vBlob("key", 32)
	mk := func(c *vhNetConn) *stream.Stream {
		st := stream.NewStream(c)
		if mode > 0 {
			if st.SetSymmetricKey(key) != nil {
				vAssume(false)
			}
			if mode == 2 {
				st.SetCryptoMode(false)
			}
		}
		return st
	}
	// the name's length is split into cases (the plain-text receivers scan for the
	// terminator byte by byte); its characters stay symbolic: 7 = "ClaimId"...,
	// 10 = "ServerTime"..., 13 = a reserved-prefix name
	nlen := []int{2, 7, 10, 13}[vChoice("name1_len", 4)]
	if privateOnly {
		vAssume(nlen == 7 || nlen == 13)
	}
	n1 := string(vBlob("name1", nlen))
	vAssume(vhIdentRE.MatchString(n1))
	vAssume(!vIn(strings.ToLower(n1), []string{"owner", "mytype", "targettype", "capability"}))
	ad := classad.New()
	capFirst := vBool("capability_first") // a fixed private attribute, next to the arbitrary one
	if capFirst {
		_ = ad.Set("Capability", "v-cap")
	}
	_ = ad.Set(n1, "v-one")
	if !capFirst {
		_ = ad.Set("Capability", "v-cap")
	}
	_ = ad.Set("Owner", "v-two")
	hasTypes := vBool("has_types")
	if hasTypes {
		_ = ad.Set("MyType", "Machine")
		_ = ad.Set("TargetType", "Job")
	}
	cfg := &PutClassAdConfig{Options: PutClassAdOptions(vInt("options"))}
	vAssume(cfg.Options >= 0 && cfg.Options < 64 && cfg.Options&PutClassAdNoTypes == 0)
	tail := vInt("tail")
	sc := &vhNetConn{}
	m := NewMessageForStream(mk(sc))
	if putClassAdToMessageWithOptions(m, ad, cfg, vhCtx) != nil || m.PutInt(vhCtx, tail) != nil || m.FinishMessage(vhCtx) != nil {
		vAssert(false, "serialisation-succeeds")
		return
	}
	optIn := cfg.Options&PutClassAdIncludePrivate != 0 && cfg.Options&PutClassAdNoPrivate == 0
	private1 := vOr(vhPrivateV1(n1), vhPrivateV2(n1))
	sent1 := vOr(!private1, optIn)
	serverTime := cfg.Options&PutClassAdServerTime != 0

	var seen []string
	VerifHook_parseAndInsertExpression = func(a *classad.ClassAd, s string) error {
		seen = append(seen, s)
		return nil
	}
	defer func() { VerifHook_parseAndInsertExpression = nil }()
	for kind := 0; kind < 3; kind++ {
		rm := NewMessageFromStream(mk(&vhNetConn{in: sc.outs}))
		var err error
		var got *classad.ClassAd
		switch kind {
		case 0:
			got, err = getClassAdFromMessage(rm, vhCtx)
		case 1:
			_, err = rm.GetClassAdRaw(vhCtx)
		case 2:
			err = rm.SkipClassAdRaw(vhCtx)
		}
		vAssert(err == nil, "receiver-accepts-what-the-sender-wrote")
		if err != nil {
			return
		}
		after, aerr := rm.GetInt(vhCtx)
		vAssert(aerr == nil && after == tail, "value-after-the-ad-is-the-next-thing-read")
		if kind != 0 {
			continue
		}
		// what the parsing receiver was handed
		want1 := n1 + ` = "v-one"`
		c1, c2, c3, cst, other := 0, 0, 0, 0, 0
		for _, s := range seen {
			switch {
			case s == want1:
				c1++
			case s == `Owner = "v-two"`:
				c2++
			case s == `Capability = "v-cap"`:
				c3++
			case strings.HasPrefix(s, "ServerTime = ") && strings.ToLower(n1) != "servertime" || strings.HasPrefix(s, "ServerTime = ") && !strings.HasPrefix(s, `ServerTime = "`):
				cst++
			case hasTypes && (s == `MyType = "Machine"` || s == `TargetType = "Job"`):
			default:
				other++
			}
		}
		vAssert(c2 == 1, "non-private-attribute-arrives-exactly-once")
		vAssert(vImplies(sent1, c1 == 1), "transmitted-attribute-arrives-exactly-once")
		vAssert(vImplies(!sent1, c1 == 0), "withheld-attribute-does-not-arrive")
		vAssert(vImplies(optIn, c3 == 1), "transmitted-attribute-arrives-exactly-once")
		vAssert(vImplies(!optIn, c3 == 0), "withheld-attribute-does-not-arrive")
		vAssert(other == 0, "nothing-else-arrives-as-an-attribute")
		if serverTime {
			vAssert(cst == 1, "fresh-server-time-arrives-once")
		} else {
			vAssert(cst == 0, "nothing-else-arrives-as-an-attribute")
		}
		if got != nil {
			mt, _ := got.EvaluateAttrString("MyType")
			tt, _ := got.EvaluateAttrString("TargetType")
			if hasTypes {
				vAssert(mt == "Machine" && tt == "Job", "type-names-arrive")
			} else {
				vAssert(mt == "" && tt == "", "type-names-arrive")
			}
		}
		vCover("sender-receiver-roundtrip")
	}
}

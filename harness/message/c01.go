package message

import (
	"io"
	"net"
	"time"

	"github.com/bbockelm/cedar/stream"
)

func init() {
	vRegister("VH_C01_TypedSplit", VH_C01_TypedSplit)
}

// vhNetConn: chunked scripted connection (see harness/stream/common.go).
type vhNetConn struct {
	outs [][]byte
	in   [][]byte
	ci   int
	cpos int
}

func (c *vhNetConn) Read(p []byte) (int, error) {
	for c.ci < len(c.in) && c.cpos == len(c.in[c.ci]) {
		c.ci++
		c.cpos = 0
	}
	if c.ci == len(c.in) {
		if len(p) == 0 {
			return 0, nil
		}
		return 0, io.EOF
	}
	n := copy(p, c.in[c.ci][c.cpos:])
	c.cpos += n
	return n, nil
}
func (c *vhNetConn) Write(p []byte) (int, error) {
	q := make([]byte, len(p))
	copy(q, p)
	c.outs = append(c.outs, q)
	return len(p), nil
}
func (c *vhNetConn) Close() error                       { return nil }
func (c *vhNetConn) LocalAddr() net.Addr                { return nil }
func (c *vhNetConn) RemoteAddr() net.Addr               { return nil }
func (c *vhNetConn) SetDeadline(t time.Time) error      { return nil }
func (c *vhNetConn) SetReadDeadline(t time.Time) error  { return nil }
func (c *vhNetConn) SetWriteDeadline(t time.Time) error { return nil }

// VH_C01_TypedSplit: a raw value of any length up to 3 MiB + 64 followed by an
// integer, written through the typed layer onto a real stream (plain or
// AES-GCM): no Put* reports an error, every frame the layer emits is accepted by
// the real receiver, and GetBytes / GetInt return what was sent.
//
//verif:unwind 8
func VH_C01_TypedSplit() {
	enc := vBool("enc")
	sc, rc := &vhNetConn{}, &vhNetConn{}
	s, r := stream.NewStream(sc), stream.NewStream(rc)
	if enc {
		key := vBlob("key", 32)
		if s.SetSymmetricKey(key) != nil || r.SetSymmetricKey(key) != nil {
			vAssume(false)
		}
	}
	n := vInt("n")
	vAssume(n >= 0 && n <= 3<<20+64)
	d := vBlob("d", n)
	tail := vInt("tail")
	m := NewMessageForStream(s)
	vAssert(m.PutBytes(vhCtx, d) == nil, "typed-layer-accepts-any-length")
	vAssert(m.PutInt(vhCtx, tail) == nil, "put-int-after-large-value")
	vAssert(m.FinishMessage(vhCtx) == nil, "finish-message")
	vTag("nframes", len(sc.outs))
	rc.in = sc.outs
	rm := NewMessageFromStream(r)
	got, err := rm.GetBytes(vhCtx, n)
	vAssert(err == nil, "receiver-accepts-every-frame-of-a-large-value")
	if err != nil {
		return
	}
	if n > 0 {
		vAssertBytesEqual(got, d, "large-value-identical")
	}
	gt, err2 := rm.GetInt(vhCtx)
	vAssert(err2 == nil && gt == tail, "following-int-identical")
	vCover("typed-split-roundtrip")
}

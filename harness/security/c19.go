package security

import (
	"crypto/tls"

	"github.com/bbockelm/cedar/stream"
)

func init() {
	vRegister("VH_C19_ThreadClient", VH_C19_ThreadClient)
	vRegister("VH_C19_ThreadServer", VH_C19_ThreadServer)
	vRegister("VH_C19_ThreadClientResume", VH_C19_ThreadClientResume)
	vRegister("VH_C19_ThreadServerResume", VH_C19_ThreadServerResume)
	vRegister("VH_C19_ThreadFSClient", VH_C19_ThreadFSClient)
	vRegister("VH_C19_ThreadFSServer", VH_C19_ThreadFSServer)
	vRegister("VH_C19_ThreadTokenServer", VH_C19_ThreadTokenServer)
	vRegister("VH_C19_ThreadTokenClient", VH_C19_ThreadTokenClient)
	vRegister("VH_C19_ThreadClientAuth", VH_C19_ThreadClientAuth)
	vRegister("VH_C19_ThreadServerAuth", VH_C19_ThreadServerAuth)
	vRegister("VH_C19_ThreadTLS", VH_C19_ThreadTLS)
}

// Context threading (C19): the handshake harnesses of the other properties hand
// the code under test a marked context and every message-layer operation and
// method invocation records the context it was given; the typed-queue seam asserts
// at the end of each run that none of them ran under a context that does not
// descend from the caller's (every-message-operation-ran-under-the-callers-
// context). These entries run those bodies under C19.
//
//verif:unwind 6
func VH_C19_ThreadClient() { VH_C03_ClientGlue() }

// VH_C19_ThreadServer: see VH_C19_ThreadClient.
//
//verif:unwind 6
func VH_C19_ThreadServer() { VH_C03_ServerGlue() }

// VH_C19_ThreadClientResume: see VH_C19_ThreadClient.
//
//verif:unwind 6
func VH_C19_ThreadClientResume() { VH_C06_ClientResume() }

// VH_C19_ThreadServerResume: see VH_C19_ThreadClient.
//
//verif:unwind 6
func VH_C19_ThreadServerResume() { vhStoreResume() }

// VH_C19_ThreadFSClient: see VH_C19_ThreadClient.
//
//verif:unwind 16
func VH_C19_ThreadFSClient() { VH_C18_ClientEffects() }

// VH_C19_ThreadFSServer: see VH_C19_ThreadClient.
//
//verif:unwind 6
func VH_C19_ThreadFSServer() { VH_C18_ServerVerdict() }

// VH_C19_ThreadTokenServer: see VH_C19_ThreadClient.
//
//verif:unwind 8
func VH_C19_ThreadTokenServer() { VH_C11_ServerFlow() }

// VH_C19_ThreadTokenClient: see VH_C19_ThreadClient.
//
//verif:unwind 8
func VH_C19_ThreadTokenClient() { VH_C11_ClientFlow() }

// VH_C19_ThreadClientAuth: the method retry loop (thorough tier: ~5000 paths).
//
//verif:unwind 6
//verif:tier thorough
func VH_C19_ThreadClientAuth() { VH_C03_ClientAuth() }

// VH_C19_ThreadServerAuth: see VH_C19_ThreadClientAuth.
//
//verif:unwind 6
//verif:tier thorough
func VH_C19_ThreadServerAuth() { VH_C03_ServerAuth() }

// VH_C19_ThreadTLS: the TLS-tunnelled phase of the SSL method. The real
// performTLSHandshake builds its record carrier (CEDARTLSConnection) and drives it
// through crypto/tls, of which only the I/O pattern is modelled (client: write then
// read; server: read then write; DESIGN 3.2). The peer answers with a record of
// arbitrary status and up to 3 bytes, or goes away. Every CEDAR message operation
// made underneath the TLS library ran under the handshake's context (asserted by
// the typed-queue seam), on both sides.
//
//verif:unwind 24
func VH_C19_ThreadTLS() {
	st := stream.NewStream(&vhConn{})
	io_ := &vhIO{st: st}
	defer vhInstall(io_)()
	a := &Authenticator{config: &SecurityConfig{}, stream: st}
	ssl := &SSLAuthenticator{authenticator: a, tlsConfig: &tls.Config{InsecureSkipVerify: true}}
	neg := &SecurityNegotiation{IsClient: vBool("is_client"), ServerConfig: &SecurityConfig{}, ClientConfig: &SecurityConfig{}}
	n := vChoice("record_len", 4)
	io_.peer = func(k int) []vhItem {
		if k >= len(vhEOFNames) || vBool(vhEOFNames[k]) {
			return nil
		}
		items := []vhItem{{kind: vkInt, i: vInt(vhStatusNames[k])}, {kind: vkInt, i: n}}
		for i := 0; i < n; i++ {
			items = append(items, vhItem{kind: vkChar, i: 0x16})
		}
		return items
	}
	_ = ssl.performTLSHandshake(vhCtx, neg)
	vCover("tls-phase-ran")
	vAssert(len(io_.ctxSeen) > 0, "the-tls-phase-exchanged-messages")
}

var vhStatusNames = [10]string{"peer_status0", "peer_status1", "peer_status2", "peer_status3", "peer_status4", "peer_status5", "peer_status6", "peer_status7", "peer_status8", "peer_status9"}

package security

import (
	"time"

	"github.com/bbockelm/cedar/stream"
)

func init() {
	vRegister("VH_C07_ReuseKey", VH_C07_ReuseKey)
	vRegister("VH_C07_Drop", VH_C07_Drop)
	vRegister("VH_C07_Invalidate", VH_C07_Invalidate)
	vRegister("VH_C07_SweepRoutes", VH_C07_SweepRoutes)
}

func vhNoSeparators(s string) { vAssume(vNoneOf(s, ",{}")) }

var vhValidLists = []string{"60007", "60007,421", "421", " 60007 , 5", ""}

// VH_C07_ReuseKey: a session is filed by the real storeClientSession after a
// handshake under tag T with server A and the server's valid-command list; a
// later ClientHandshake with arbitrary tag T', server A' and command C' on the
// same cache rides that session only if T' == T, A' == A and C' is one of the
// valid commands - and, conversely, does ride it when all three match.
//
//verif:unwind 8
func VH_C07_ReuseKey() {
	vClockWindow(int64(time.Minute))
	cache := NewSessionCache()
	tag := vString("tag", 3)
	addr := vString("addr", 4)
	vAssume(len(addr) > 0)
	vhNoSeparators(tag)
	vhNoSeparators(addr)
	valid := vPick("valid", vhValidLists)
	st1 := stream.NewStream(&vhConn{})
	cfg1 := &SecurityConfig{SecurityTag: tag, PeerName: addr, Command: 60007, SessionCache: cache,
		Authentication: SecurityOptional, Encryption: SecurityOptional}
	a1 := &Authenticator{config: cfg1, stream: st1}
	neg1 := &SecurityNegotiation{ClientConfig: cfg1, ServerConfig: &SecurityConfig{}, IsClient: true,
		SessionId: "srv:1:2:3", ValidCommands: valid, NegotiatedCrypto: CryptoAES, User: "bob@pool"}
	neg1.setSharedSecret(vBlob("key", 32))
	a1.storeClientSession(neg1, 0, 0, cache)

	// a later handshake
	st2 := stream.NewStream(&vhConn{})
	io_ := &vhIO{st: st2}
	defer vhInstall(io_)()
	vhStubCrypto("")
	tag2 := vString("tag2", 3)
	addr2 := vString("addr2", 4)
	vAssume(len(addr2) > 0)
	vhNoSeparators(tag2)
	vhNoSeparators(addr2)
	cmd2 := vInt("cmd2")
	vAssume(cmd2 >= 0 && cmd2 <= 99999)
	cfg2 := &SecurityConfig{SecurityTag: tag2, PeerName: addr2, Command: cmd2, SessionCache: cache,
		Authentication: SecurityOptional, Encryption: SecurityOptional, AuthMethods: []AuthMethod{AuthFS}, CryptoMethods: []CryptoMethod{CryptoAES}}
	a2 := &Authenticator{config: cfg2, stream: st2}
	io_.peer = func(k int) []vhItem { return nil } // the server side is irrelevant: only the opening message is examined
	_, _ = a2.ClientHandshake(vhCtx)
	resumed := false
	if len(io_.sent) >= 1 && len(io_.sent[0]) == 2 && io_.sent[0][1].kind == vkAd {
		us, ok := io_.sent[0][1].ad.EvaluateAttrString("UseSession")
		resumed = ok && us == "YES"
	} else {
		vAssert(false, "opening-message-shape")
	}
	cmdValid := vOr(vOr(vAnd(valid == "60007", cmd2 == 60007), vAnd(valid == "60007,421", vOr(cmd2 == 60007, cmd2 == 421))),
		vOr(vAnd(valid == "421", cmd2 == 421), vAnd(valid == " 60007 , 5", vOr(cmd2 == 60007, cmd2 == 5))))
	same := vAnd(vAnd(tag2 == tag, addr2 == addr), cmdValid)
	vTag("taglen", len(tag))
	vTag("tag2len", len(tag2))
	if resumed {
		vCover("resumes")
		vAssert(tag2 == tag, "reuse-only-under-the-same-tag")
		vAssert(addr2 == addr, "reuse-only-for-the-same-server")
		vAssert(cmdValid, "reuse-only-for-a-valid-command")
	} else {
		vCover("full-handshake")
		vAssert(!same, "matching-handshake-reuses-the-session")
	}
}

// VH_C07_Drop: see VH_C06_ClientResume (a failed resumption drops the session
// and every command mapping, so the next handshake is a full one).
//
//verif:unwind 6
func VH_C07_Drop() { VH_C06_ClientResume() }

// VH_C07_Invalidate: see VH_C06_Lifecycle (invalidating or expiring a session
// removes every route to it).
//
//verif:unwind 8
func VH_C07_Invalidate() { VH_C06_Lifecycle() }

// VH_C07_SweepRoutes: expiring a session removes every route to it, however the
// expiry is noticed. A session in an arbitrary expiry state is routed under
// ("", <a:1>, 7); it is then possibly looked up (a lookup of an expired session
// drops it from the table lazily), and the expiry sweep runs. Afterwards no
// command mapping leads to an id the table does not hold, and when the same id is
// established again under another tag (claim and inherited session ids are
// deterministic) the old route does not lead to the new session.
//
//verif:unwind 8
func VH_C07_SweepRoutes() {
	vClockWindow(int64(time.Minute))
	base := time.Now()
	cache := NewSessionCache()
	s0 := vhMakeSession("s0", base, 3)
	s1 := vhMakeSession("s1", base, 3)
	vAssume(s0.id != s1.id)
	cache.Store(s0.entry)
	cache.Store(s1.entry)
	cache.MapCommand("", "<a:1>", "7", s0.id)
	cache.MapCommand("t", "<a:1>", "8", s1.id)
	switch vChoice("noticed_by", 4) {
	case 0:
	case 1:
		cache.LookupNonExpired(s0.id)
	case 2:
		cache.Lookup(s0.id)
	case 3:
		cache.LookupByCommand("", "<a:1>", "7")
	}
	n := cache.InvalidateExpired()
	vAssert(n <= 2, "sweep-count")
	for _, sid := range cache.commandMap {
		_, ok := cache.sessions[sid]
		vAssert(ok, "after-the-sweep-every-mapping-leads-to-a-stored-session")
	}
	if s0.expired {
		vCover("expired-session-swept")
		again := NewSessionEntry(s0.id, "<b:2>", &KeyInfo{Data: []byte("0123456789abcdef0123456789abcdef"), Protocol: "AES"}, s0.entry.Policy(), base.Add(time.Hour), 0, "t2")
		cache.Store(again)
		cache.MapCommand("t2", "<b:2>", "7", s0.id)
		_, old := cache.LookupByCommand("", "<a:1>", "7")
		vAssert(!old, "route-of-an-expired-session-does-not-lead-to-its-successor")
		_, cur := cache.LookupByCommand("t2", "<b:2>", "7")
		vAssert(cur, "successor-reachable-by-its-own-route")
	} else {
		vCover("live-session-kept")
		_, ok := cache.LookupByCommand("", "<a:1>", "7")
		vAssert(ok, "live-session-still-routed")
	}
}

package security

import (
	"context"
	"strconv"
	"time"

	"github.com/PelicanPlatform/classad/classad"
	"github.com/bbockelm/cedar/commands"
	"github.com/bbockelm/cedar/stream"
)

func init() {
	vRegister("VH_C10_AgreementSession", VH_C10_AgreementSession)
}

// VH_C10_AgreementSession: what the two ends of a completed handshake file away.
// The server's real createPostAuthAd (+ real storeSession) runs for an arbitrary
// handshake outcome (authenticated as some identity or not, keyed or not, any
// command, with or without an application policy that maps the identity and
// widens the command list); the ad it produced is what the client's real
// performFullAuthentication (negotiation, authentication and key-setup steps
// stubbed: their agreement is VH_C10_Agreement{Auth,Enc}) reads as the post-
// authentication message before its real storeClientSession. Both ends then name
// the same session identifier and identity, hold the same key under it, give it a
// lifetime that differs by no more than the clock readings do, and the client can
// immediately find the session again for the command it authenticated for, under
// its own tag and the server's address -- while the server finds it by the id.
//
//verif:unwind 8
func VH_C10_AgreementSession() {
	vClockWindow(int64(time.Minute))
	defer GetSessionCache().Clear()
	GetSessionCache().Clear()
	// the id's text (host:pid:time:counter, symbolic decimal renderings) is not the
	// subject; a fixed id keeps the cache lookups concrete
	VerifHook_GenerateSessionID = func(counter int) string { return "host7:4711:1700000000:42" }
	defer func() { VerifHook_GenerateSessionID = nil }()
	key := vBlob("session_key", 32)
	keyed := vBool("keyed")
	// (a symbolic command number makes the client split a symbolic decimal list:
	// 12 minutes; three concrete commands: seconds)
	cmd := []int{60007, 421, 1}[vChoice("cmd", 3)]
	user := vPick("user", []string{"", "alice@pool"})
	// ---- server ----
	sst := stream.NewStream(&vhConn{})
	sst.SetPeerAddr("<198.51.100.7:40000>")
	scfg := &SecurityConfig{Authentication: SecurityOptional, Encryption: SecurityOptional, Integrity: SecurityOptional}
	mapped := vBool("post_auth_policy")
	if mapped {
		scfg.PostAuthPolicy = func(u, addr string, authed, enc bool) (string, []int) {
			return "mapped@pool", []int{421, cmd}
		}
	}
	if vBool("own_lifetime") {
		scfg.SessionDuration, scfg.SessionLease = 7200, 600
	}
	sa := &Authenticator{config: scfg, stream: sst}
	sneg := &SecurityNegotiation{Command: commands.DC_AUTHENTICATE, ClientConfig: &SecurityConfig{Command: cmd}, ServerConfig: scfg,
		User: user, Authentication: user != "", Encryption: keyed, NegotiatedCrypto: CryptoAES, NegotiatedAuth: AuthFS}
	if keyed {
		sneg.setSharedSecret(key)
	}
	post := sa.createPostAuthAd(sneg)
	sid := sneg.SessionId
	vAssert(sid != "", "server-names-a-session")
	// ---- client ----
	cst := stream.NewStream(&vhConn{})
	io_ := &vhIO{st: cst}
	defer vhInstall(io_)()
	VerifHook_Authenticator_negotiateSecurity = func(a *Authenticator, n *SecurityNegotiation) error {
		n.NegotiatedCrypto, n.NegotiatedAuth = CryptoAES, AuthFS
		n.Authentication, n.Encryption = user != "", keyed
		return nil
	}
	VerifHook_Authenticator_handleClientAuthentication = func(a *Authenticator, ctx context.Context, n *SecurityNegotiation) error { return nil }
	VerifHook_Authenticator_setupStreamEncryption = func(a *Authenticator, n *SecurityNegotiation) error {
		if keyed {
			n.setSharedSecret(key)
		}
		return nil
	}
	tag := vPick("tag", []string{"", "ctx1"})
	ccache := NewSessionCache()
	ccfg := &SecurityConfig{Authentication: SecurityOptional, Encryption: SecurityOptional, Integrity: SecurityOptional,
		AuthMethods: []AuthMethod{AuthFS}, CryptoMethods: []CryptoMethod{CryptoAES}, Command: cmd,
		PeerName: "<192.0.2.1:9618>", SessionCache: ccache, SecurityTag: tag}
	ca := &Authenticator{config: ccfg, stream: cst}
	srv := classad.New()
	_ = srv.Set("Authentication", "YES")
	_ = srv.Set("Encryption", "YES")
	_ = srv.Set("AuthMethods", "FS")
	_ = srv.Set("CryptoMethods", "AES")
	io_.peer = func(k int) []vhItem {
		switch k {
		case 0:
			return []vhItem{{kind: vkAd, ad: srv}}
		case 1:
			return []vhItem{{kind: vkAd, ad: post}}
		}
		return nil
	}
	cneg, err := ca.performFullAuthentication(vhCtx, ccache)
	vAssert(err == nil, "client-accepts-the-servers-post-authentication-message")
	if err != nil {
		return
	}
	vCover("handshake-completed")
	vAssert(cneg.SessionId == sid, "both-ends-name-the-same-session")
	wantUser := user
	if user == "" {
		wantUser = "unauthenticated@unmapped"
	}
	if mapped {
		wantUser = "mapped@pool"
	}
	vAssert(cneg.User == wantUser, "client-learns-the-identity-the-server-mapped-it-to")
	vAssert(vImplies(user != "", sneg.User == cneg.User), "both-ends-report-the-same-identity")
	se, sok := GetSessionCache().LookupNonExpired(sid)
	vAssert(sok, "server-can-resume-the-session-by-its-id")
	ce, cok := ccache.LookupByCommand(tag, "<192.0.2.1:9618>", strconv.Itoa(cmd))
	vAssert(cok && ce != nil && ce.ID() == sid, "client-finds-the-session-for-its-command-tag-and-server")
	if !sok || !cok || ce == nil {
		return
	}
	if keyed {
		vAssert(se.KeyInfo() != nil && ce.KeyInfo() != nil, "both-ends-hold-a-key")
		if se.KeyInfo() != nil && ce.KeyInfo() != nil {
			vAssertBytesEqual(se.KeyInfo().Data, key, "server-files-the-session-key")
			vAssertBytesEqual(ce.KeyInfo().Data, key, "client-files-the-session-key")
			vAssert(se.KeyInfo().Protocol == ce.KeyInfo().Protocol, "same-cipher")
		}
	} else {
		vAssert(se.KeyInfo() == nil && ce.KeyInfo() == nil, "no-key-without-encryption")
	}
	d := ce.Expiration().Sub(se.Expiration())
	vAssert(d >= 0 && d <= time.Minute, "same-lifetime-on-both-ends")
	vAssert(se.Lease() == ce.Lease(), "same-lease-on-both-ends")
	vAssert(ce.Tag() == tag, "client-files-under-its-tag")
	if tag == "ctx1" {
		_, other := ccache.LookupByCommand("", "<192.0.2.1:9618>", strconv.Itoa(cmd))
		vAssert(!other, "no-route-under-another-tag")
	}
}

package security

func init() {
	vRegister("VH_C05_ResumedStatus", VH_C05_ResumedStatus)
}

// VH_C05_ResumedStatus: what a resumed session reports to the dispatcher is what
// the original handshake really established (see vhStoreResume): a handler whose
// policy demands authentication must not become reachable because a session that
// never authenticated was filed as authenticated.
//
//verif:unwind 6
func VH_C05_ResumedStatus() { vhStoreResume() }

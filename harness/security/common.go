package security

import (
	"context"
	"errors"
	"io"
	"net"
	"time"

	"github.com/PelicanPlatform/classad/classad"
	"github.com/bbockelm/cedar/message"
	"github.com/bbockelm/cedar/stream"
)

// vhCtx is the context every harness hands to the code under test: a marked
// context, so that an operation run under context.Background()/TODO() (or any
// context not derived from the caller's) can be told apart.
type vhCtxKey struct{}

type vhMarkedCtx struct{}

func (*vhMarkedCtx) Deadline() (time.Time, bool) { return time.Time{}, false }
func (*vhMarkedCtx) Done() <-chan struct{}       { return vhDone }
func (*vhMarkedCtx) Err() error                  { return nil }
func (*vhMarkedCtx) Value(key any) any {
	if _, ok := key.(vhCtxKey); ok {
		return true
	}
	return nil
}

var vhDone = make(chan struct{})

var vhCtx context.Context = &vhMarkedCtx{}

// a context "of the caller": it carries the mark and can still be cancelled
// through it (context.WithoutCancel keeps the mark but has no Done channel)
func vhOwnCtx(c context.Context) bool {
	return c != nil && c.Value(vhCtxKey{}) != nil && c.Done() != nil
}

// ---- connection (only ever carries protected application frames in these
// harnesses; handshake messages are exchanged through the message-level seams) --

type vhConn struct {
	outs   [][]byte
	closed bool
}

func (c *vhConn) Read(p []byte) (int, error)          { return 0, io.EOF }
func (c *vhConn) Write(p []byte) (int, error)         { c.outs = append(c.outs, append([]byte{}, p...)); return len(p), nil }
func (c *vhConn) Close() error                        { c.closed = true; return nil }
func (c *vhConn) LocalAddr() net.Addr                 { return nil }
func (c *vhConn) RemoteAddr() net.Addr                { return nil }
func (c *vhConn) SetDeadline(t time.Time) error       { return nil }
func (c *vhConn) SetReadDeadline(t time.Time) error   { return nil }
func (c *vhConn) SetWriteDeadline(t time.Time) error  { return nil }

// ---- message-level I/O seam ----------------------------------------------

const (
	vkInt = iota
	vkStr
	vkBytes
	vkAd
	vkChar
)

type vhItem struct {
	kind int
	i    int
	s    string
	b    []byte
	ad   *classad.ClassAd
}

// vhIO replaces the typed message layer for one endpoint: what the endpoint
// puts is recorded message by message; what it gets is produced on demand by the
// harness's peer function (nil = the peer closed the connection).
type vhIO struct {
	sent    [][]vhItem
	out     []vhItem
	cur     []vhItem
	fresh   bool
	nIn     int
	peer    func(k int) []vhItem
	ctxSeen []context.Context
	encSent []bool // stream encryption state when each message was finished
	encRecv []bool // stream encryption state when each inbound message was started
	clearFrozen bool // a message crossed in the clear after the handshake digests were frozen
	foreignCtx  bool // a message operation ran under a context not derived from the caller's
	st      *stream.Stream
}

var vhio *vhIO

var vhErrClosed = errors.New("peer closed")
var vhErrType = errors.New("unexpected item type")

func (io_ *vhIO) pop(ctx context.Context, kind int) (vhItem, error) {
	io_.ctxSeen = append(io_.ctxSeen, ctx)
	if !vhOwnCtx(ctx) {
		io_.foreignCtx = true
	}
	if io_.fresh {
		io_.fresh = false
		io_.cur = io_.peer(io_.nIn)
		io_.nIn++
		if io_.st != nil {
			io_.encRecv = append(io_.encRecv, io_.st.IsEncrypted())
			if !io_.st.IsEncrypted() && stream.VHDigestsFrozen(io_.st) {
				io_.clearFrozen = true
			}
		}
		if io_.cur == nil {
			return vhItem{}, vhErrClosed
		}
	}
	if len(io_.cur) == 0 {
		return vhItem{}, io.EOF
	}
	it := io_.cur[0]
	if it.kind != kind {
		return vhItem{}, vhErrType
	}
	io_.cur = io_.cur[1:]
	return it, nil
}

func (io_ *vhIO) put(ctx context.Context, it vhItem) error {
	io_.ctxSeen = append(io_.ctxSeen, ctx)
	if !vhOwnCtx(ctx) {
		io_.foreignCtx = true
	}
	io_.out = append(io_.out, it)
	return nil
}

// vhInstall installs the seams; the returned function removes them.
func vhInstall(io_ *vhIO) func() {
	vhio = io_
	message.VerifHook_NewMessageFromStream = func(s message.StreamInterface) *message.Message {
		vhio.fresh = true
		vhio.cur = nil
		return &message.Message{}
	}
	message.VerifHook_NewMessageForStream = func(s message.StreamInterface) *message.Message {
		vhio.out = nil
		return &message.Message{}
	}
	message.VerifHook_Message_GetInt = func(m *message.Message, ctx context.Context) (int, error) {
		it, err := vhio.pop(ctx, vkInt)
		return it.i, err
	}
	message.VerifHook_Message_GetChar = func(m *message.Message, ctx context.Context) (byte, error) {
		it, err := vhio.pop(ctx, vkChar)
		return byte(it.i), err
	}
	message.VerifHook_Message_GetString = func(m *message.Message, ctx context.Context) (string, error) {
		it, err := vhio.pop(ctx, vkStr)
		return it.s, err
	}
	message.VerifHook_Message_GetStringWithMaxSize = func(m *message.Message, ctx context.Context, max int) (string, error) {
		it, err := vhio.pop(ctx, vkStr)
		if err == nil && len(it.s) > max {
			return "", vhErrType
		}
		return it.s, err
	}
	message.VerifHook_Message_GetBytes = func(m *message.Message, ctx context.Context, n int) ([]byte, error) {
		it, err := vhio.pop(ctx, vkBytes)
		if err == nil && len(it.b) != n {
			return nil, vhErrType
		}
		return it.b, err
	}
	getAd := func(m *message.Message, ctx context.Context) (*classad.ClassAd, error) {
		it, err := vhio.pop(ctx, vkAd)
		return it.ad, err
	}
	message.VerifHook_Message_GetClassAd = getAd
	message.VerifHook_Message_GetClassAdWithMaxSize = func(m *message.Message, ctx context.Context, max int) (*classad.ClassAd, error) {
		return getAd(m, ctx)
	}
	message.VerifHook_Message_PutInt = func(m *message.Message, ctx context.Context, v int) error {
		return vhio.put(ctx, vhItem{kind: vkInt, i: v})
	}
	message.VerifHook_Message_PutChar = func(m *message.Message, ctx context.Context, c byte) error {
		return vhio.put(ctx, vhItem{kind: vkChar, i: int(c)})
	}
	message.VerifHook_Message_PutString = func(m *message.Message, ctx context.Context, s string) error {
		return vhio.put(ctx, vhItem{kind: vkStr, s: s})
	}
	message.VerifHook_Message_PutBytes = func(m *message.Message, ctx context.Context, b []byte) error {
		return vhio.put(ctx, vhItem{kind: vkBytes, b: b})
	}
	message.VerifHook_Message_PutClassAd = func(m *message.Message, ctx context.Context, ad *classad.ClassAd) error {
		return vhio.put(ctx, vhItem{kind: vkAd, ad: ad})
	}
	message.VerifHook_Message_PutClassAdWithOptions = func(m *message.Message, ctx context.Context, ad *classad.ClassAd, cfg *message.PutClassAdConfig) error {
		return vhio.put(ctx, vhItem{kind: vkAd, ad: ad})
	}
	message.VerifHook_Message_FinishMessage = func(m *message.Message, ctx context.Context) error {
		vhio.ctxSeen = append(vhio.ctxSeen, ctx)
		if !vhOwnCtx(ctx) {
			vhio.foreignCtx = true
		}
		vhio.sent = append(vhio.sent, vhio.out)
		if vhio.st != nil {
			vhio.encSent = append(vhio.encSent, vhio.st.IsEncrypted())
			if !vhio.st.IsEncrypted() && stream.VHDigestsFrozen(vhio.st) {
				vhio.clearFrozen = true
			}
		}
		vhio.out = nil
		return nil
	}
	VerifHook_redactSessionID = func(id string) string { return "sid" }
	return func() {
		// C19, checked wherever a handshake runs over the typed queues: every message
		// operation of the code under test ran under (a descendant of) the context the
		// caller passed in
		vAssert(!vhio.foreignCtx, "every-message-operation-ran-under-the-callers-context")
		message.VerifHook_NewMessageFromStream = nil
		message.VerifHook_NewMessageForStream = nil
		message.VerifHook_Message_GetInt = nil
		message.VerifHook_Message_GetChar = nil
		message.VerifHook_Message_GetString = nil
		message.VerifHook_Message_GetStringWithMaxSize = nil
		message.VerifHook_Message_GetBytes = nil
		message.VerifHook_Message_GetClassAd = nil
		message.VerifHook_Message_GetClassAdWithMaxSize = nil
		message.VerifHook_Message_PutInt = nil
		message.VerifHook_Message_PutChar = nil
		message.VerifHook_Message_PutString = nil
		message.VerifHook_Message_PutBytes = nil
		message.VerifHook_Message_PutClassAd = nil
		message.VerifHook_Message_PutClassAdWithOptions = nil
		message.VerifHook_Message_FinishMessage = nil
		VerifHook_redactSessionID = nil
		VerifHook_Authenticator_performAuthentication = nil
		VerifHook_Authenticator_performECDHKeyExchange = nil
		VerifHook_Authenticator_deriveAESKey = nil
		VerifHook_Authenticator_hasCompatibleToken = nil
		VerifHook_Authenticator_tokenSearchSummary = nil
		VerifHook_Authenticator_storeClientSession = nil
		VerifHook_Authenticator_storeSession = nil
		VerifHook_bitmaskToAuthMethod = nil
		VerifHook_authMethodToBitmask = nil
		VerifHook_Authenticator_negotiateSecurity = nil
		VerifHook_Authenticator_handleClientAuthentication = nil
		VerifHook_Authenticator_handleServerAuthentication = nil
		VerifHook_Authenticator_setupStreamEncryption = nil
		VerifHook_Authenticator_exchangeKey = nil
		vhio = nil
	}
}

// ---- authentication-method and key-agreement stubs ---------------------------------

type vhAuthRun struct {
	method AuthMethod
	ok     bool
}

var vhAuthLog []vhAuthRun

// vhStubCrypto replaces the method bodies and the ECDH/HKDF computations by
// nondeterministic outcomes: a method either completes or fails (recorded in
// vhAuthLog); key agreement either yields a 32-byte key or fails.
func vhStubCrypto(user string) {
	vhAuthLog = nil
	names := [4]string{"auth_ok0", "auth_ok1", "auth_ok2", "auth_ok3"}
	VerifHook_Authenticator_performAuthentication = func(a *Authenticator, ctx context.Context, method AuthMethod, neg *SecurityNegotiation) error {
		k := len(vhAuthLog)
		if k >= len(names) {
			vAssume(false)
		}
		ok := vBool(names[k])
		vhAuthLog = append(vhAuthLog, vhAuthRun{method, ok})
		if vhio != nil {
			vhio.ctxSeen = append(vhio.ctxSeen, ctx)
			if !vhOwnCtx(ctx) {
				vhio.foreignCtx = true
			}
		}
		if !ok {
			return errors.New("method failed")
		}
		if !neg.IsClient {
			neg.User = user
		}
		return nil
	}
	VerifHook_Authenticator_performECDHKeyExchange = func(a *Authenticator, ck, sk string, isClient bool) ([]byte, error) {
		if !vBool("ecdh_ok") {
			return nil, errors.New("ecdh failed")
		}
		return vBlob("dh_secret", 32), nil
	}
	VerifHook_Authenticator_deriveAESKey = func(a *Authenticator, secret []byte) ([]byte, error) {
		return vBlob("aes_key", 32), nil
	}
	tokNames := [4]string{"has_token0", "has_token1", "has_token2", "has_token3"}
	ntok := 0
	VerifHook_Authenticator_hasCompatibleToken = func(a *Authenticator, c, s *SecurityConfig) bool {
		if ntok >= len(tokNames) {
			vAssume(false)
		}
		ntok++
		return vBool(tokNames[ntok-1])
	}
	VerifHook_Authenticator_tokenSearchSummary = func(a *Authenticator, c, s *SecurityConfig) string { return "" }
}

func vhRanOK() (AuthMethod, bool) {
	for _, r := range vhAuthLog {
		if r.ok {
			return r.method, true
		}
	}
	return "", false
}

var vhLevelNames = []string{"REQUIRED", "PREFERRED", "OPTIONAL", "NEVER"}

// vhLevel is one of the four levels, kept symbolic (no path fork).
func vhLevel(name string) SecurityLevel { return SecurityLevel(vPick(name, vhLevelNames)) }

var vhMethodNames = []string{"FS", "TOKEN", "SSL", "CLAIMTOBE", "KERBEROS", "PASSWORD", "NONE"}

// vhMethods is a method list of length (0|1)..2 whose elements stay symbolic.
func vhMethods(name string, allowEmpty bool) []AuthMethod {
	n := vChoice(name+"_n", 3)
	if n == 0 && !allowEmpty {
		n = 1
	}
	var out []AuthMethod
	if n >= 1 {
		out = append(out, AuthMethod(vPick(name+"_0", vhMethodNames)))
	}
	if n >= 2 {
		out = append(out, AuthMethod(vPick(name+"_1", vhMethodNames)))
		vAssume(out[0] != out[1])
	}
	return out
}

// vhNoSessionStore replaces the session-cache filing at the end of a handshake
// (C06/C07's subject) by no-ops.
func vhNoSessionStore() {
	VerifHook_Authenticator_storeClientSession = func(a *Authenticator, n *SecurityNegotiation, d, l int, c *SessionCache) {}
	VerifHook_Authenticator_storeSession = func(a *Authenticator, n *SecurityNegotiation, sid string, d, l int) {}
}

// vhListed: m is an element of ms (single term, no fork).
func vhListed(ms []AuthMethod, m AuthMethod) bool {
	r := false
	for _, x := range ms {
		r = vOr(r, x == m)
	}
	return r
}

func vhHasMethod(ms []AuthMethod, m AuthMethod) bool {
	for _, x := range ms {
		if x == m {
			return true
		}
	}
	return false
}

// ---- branch-free summaries of the two pure bitmask tables ------------------------
// (proved equal to the real functions for every input by VH_C03_Summaries; using
// them avoids a 9-way path split at every call).

func vhBitmaskToAuthMethod(b int) AuthMethod {
	r := ""
	r = vIteStr(b == AuthBitmaskNone, "NONE", r)
	r = vIteStr(b == AuthBitmaskClaimToBe, "CLAIMTOBE", r)
	r = vIteStr(b == AuthBitmaskFS, "FS", r)
	r = vIteStr(b == AuthBitmaskKerberos, "KERBEROS", r)
	r = vIteStr(b == AuthBitmaskPassword, "PASSWORD", r)
	r = vIteStr(b == AuthBitmaskSSL, "SSL", r)
	r = vIteStr(b == AuthBitmaskToken, "TOKEN", r)
	r = vIteStr(b == AuthBitmaskSciTokens, "SCITOKENS", r)
	return AuthMethod(r)
}

func vhAuthMethodToBitmask(m AuthMethod) int {
	r := 0
	r = vIteInt(m == AuthClaimToBe, AuthBitmaskClaimToBe, r)
	r = vIteInt(m == AuthFS, AuthBitmaskFS, r)
	r = vIteInt(m == AuthKerberos, AuthBitmaskKerberos, r)
	r = vIteInt(m == AuthPassword, AuthBitmaskPassword, r)
	r = vIteInt(m == AuthSSL, AuthBitmaskSSL, r)
	r = vIteInt(m == AuthToken, AuthBitmaskToken, r)
	r = vIteInt(m == AuthSciTokens, AuthBitmaskSciTokens, r)
	r = vIteInt(m == AuthIDTokens, AuthBitmaskSciTokens, r)
	return r
}

func vhUseSummaries() {
	VerifHook_bitmaskToAuthMethod = vhBitmaskToAuthMethod
	VerifHook_authMethodToBitmask = vhAuthMethodToBitmask
}

package security

import (
	"errors"
	"github.com/bbockelm/cedar/commands"
	"github.com/bbockelm/cedar/stream"
)

func init() {
	vRegister("VH_C10_AgreementAuth", VH_C10_AgreementAuth)
	vRegister("VH_C10_AgreementEnc", VH_C10_AgreementEnc)
	vRegister("VH_C10_ServerRounds", VH_C10_ServerRounds)
}

// VH_C10_Agreement: two honest endpoints with arbitrary levels, method lists and
// cipher lists. The server runs the real negotiateSecurity on the two
// configurations and publishes its decision with the real createServerSecurityAd;
// the client reads it with the real parseServerSecurityAd and runs the real
// negotiateSecurity on its side. Whenever the server goes ahead the client goes
// ahead too, and both report the same authentication outcome, the same encryption
// outcome and, when encrypting, the same cipher.
//
// As in VH_C10_Table the authentication half and the encryption half are explored
// separately, the other half held at OPTIONAL/OPTIONAL with one common method.
//
//verif:unwind 6
func VH_C10_AgreementAuth() { vhAgreement(true) }

// VH_C10_AgreementEnc: the encryption half (see VH_C10_AgreementAuth).
//
//verif:unwind 6
func VH_C10_AgreementEnc() { vhAgreement(false) }

func vhAgreement(authHalf bool) {
	cA, sA := SecurityOptional, SecurityOptional
	cE, sE := SecurityOptional, SecurityOptional
	cM, sM := []AuthMethod{AuthFS}, []AuthMethod{AuthFS}
	cC, sC := []CryptoMethod{CryptoAES}, []CryptoMethod{CryptoAES}
	if authHalf {
		cA, sA = vhLevel("cAuth"), vhLevel("sAuth")
		cM, sM = vhMethods("cM", true), vhMethods("sM", true)
	} else {
		cE, sE = vhLevel("cEnc"), vhLevel("sEnc")
		cC, sC = vhCryptoList("cC"), vhCryptoList("sC")
	}
	cli := &SecurityConfig{Authentication: cA, Encryption: cE, Integrity: SecurityOptional, AuthMethods: cM, CryptoMethods: cC, ECDHPublicKey: "Y2xpZW50"}
	srv := &SecurityConfig{Authentication: sA, Encryption: sE, Integrity: SecurityOptional, AuthMethods: sM, CryptoMethods: sC, ECDHPublicKey: "c2VydmVy"}
	stS, stC := stream.NewStream(&vhConn{}), stream.NewStream(&vhConn{})
	ioS := &vhIO{st: stS}
	defer vhInstall(ioS)()
	// key agreement is symmetric: both ends compute the same secret (or both fail)
	const ecdhOK = true // honest endpoints with well-formed keys: the computation itself does not fail
	secret, key := vBlob("dh_secret", 32), vBlob("aes_key", 32)
	VerifHook_Authenticator_performECDHKeyExchange = func(a *Authenticator, ck, sk string, isClient bool) ([]byte, error) {
		if !ecdhOK {
			return nil, errors.New("ecdh failed")
		}
		return secret, nil
	}
	VerifHook_Authenticator_deriveAESKey = func(a *Authenticator, s []byte) ([]byte, error) { return key, nil }
	as := &Authenticator{config: srv, stream: stS}
	negS := &SecurityNegotiation{Command: commands.DC_AUTHENTICATE, ClientConfig: cli, ServerConfig: srv}
	if as.negotiateSecurity(negS) != nil {
		vCover("server-denies")
		return
	}
	ad := as.createServerSecurityAd(negS)
	ac := &Authenticator{config: cli, stream: stC}
	negC := &SecurityNegotiation{Command: commands.DC_AUTHENTICATE, ClientConfig: cli, ServerConfig: ac.parseServerSecurityAd(ad), IsClient: true}
	errC := ac.negotiateSecurity(negC)
	vAssert(errC == nil, "client-goes-ahead-when-the-server-does")
	if errC != nil {
		return
	}
	// authentication phase: the client adopts the server's published decision
	vAssert((negC.ServerConfig.Authentication == "YES") == negS.Authentication, "authentication-decision-published-to-the-client")
	if negS.Authentication {
		// the method loop itself is C03's subject; one method completes on both sides
		negC.Authentication = true
	} else {
		vAssert(ac.handleClientAuthentication(vhCtx, negC) == nil, "client-accepts-no-authentication")
		vAssert(as.handleServerAuthentication(vhCtx, negS) == nil, "server-accepts-no-authentication")
	}
	vAssert(negC.Authentication == negS.Authentication, "same-authentication-outcome")
	// key setup on both ends
	eS := as.setupStreamEncryption(negS)
	eC := ac.setupStreamEncryption(negC)
	vAssert((eS == nil) == (eC == nil), "key-setup-succeeds-or-fails-on-both-ends")
	if eS != nil || eC != nil {
		return
	}
	vCover("both-go-ahead")
	vAssert(stS.IsEncrypted() == stC.IsEncrypted(), "both-streams-keyed-or-neither")
	vAssert(negC.Encryption == negS.Encryption, "same-encryption-outcome")
	vAssert(vImplies(vOr(cE == SecurityRequired, sE == SecurityRequired), negS.Encryption), "encryption-on-when-either-side-requires-it")
	if stS.IsEncrypted() && stC.IsEncrypted() {
		vAssertBytesEqual(negC.GetSharedSecret(), negS.GetSharedSecret(), "same-session-key")
	}
}

// VH_C10_ServerRounds: the server half of the method retry loop, round by round
// (same set-up as VH_C03_ServerAuth: every own policy and method list, arbitrary
// client configuration and arbitrary bitmasks). In each round the server answers
// with the bitmask of the first method of its own list whose bit the client
// offered, or 0 when there is none; it runs exactly that method; the phase ends in
// success at the first method that completes and otherwise only because the peer
// went away, offered nothing, or the rounds ran out.
//
//verif:unwind 6
func VH_C10_ServerRounds() {
	vhServerAuth(vhCheckServerRounds)
	if vhNever {
		vhCheckServerRounds(nil, nil, nil, nil) // (makes the checker's cover labels part of this harness's vacuity guard)
	}
}

var vhNever bool

func vhCheckServerRounds(cfg *SecurityConfig, io_ *vhIO, asked []int, err error) {
	ran := 0
	for k, r := range asked {
		if r == 0 {
			vAssert(err != nil, "empty-offer-ends-the-phase")
			vAssert(len(io_.sent) == k, "no-answer-to-an-empty-offer")
			return
		}
		want := 0
		var wantM AuthMethod
		for i := len(cfg.AuthMethods) - 1; i >= 0; i-- {
			b := vhAuthMethodToBitmask(cfg.AuthMethods[i])
			hit := r&b != 0
			want = vIteInt(hit, b, want)
			wantM = AuthMethod(vIteStr(hit, string(cfg.AuthMethods[i]), string(wantM)))
		}
		if len(io_.sent) <= k || len(io_.sent[k]) != 1 || io_.sent[k][0].kind != vkInt {
			vAssert(false, "one-answer-per-offer")
			return
		}
		vAssert(io_.sent[k][0].i == want, "answer-is-first-own-method-the-client-offered")
		if want == 0 {
			continue
		}
		if ran >= len(vhAuthLog) {
			vAssert(false, "selected-method-is-run")
			return
		}
		vAssert(vhAuthLog[ran].method == wantM, "the-announced-method-is-the-one-run")
		if vhAuthLog[ran].ok {
			vCover("method-completes")
			vAssert(err == nil, "phase-succeeds-at-the-first-method-that-completes")
			return
		}
		ran++
	}
	vCover("rounds-exhausted-or-peer-gone")
	vAssert(err != nil || len(asked) == 0, "no-success-without-a-completed-method")
}

package security

import (
	"time"

	"github.com/PelicanPlatform/classad/classad"
	"github.com/bbockelm/cedar/commands"
	"github.com/bbockelm/cedar/stream"
)

func init() {
	vRegister("VH_C17_CacheAtomicity", VH_C17_CacheAtomicity)
	vRegister("VH_C17_LostInvalidation", VH_C17_LostInvalidation)
	vRegister("VH_C17_LostInvalidationClient", VH_C17_LostInvalidationClient)
}

// vhInterleave runs a, and lets b run to completion at one point chosen among:
// before a, after a, and every moment inside a at which the session cache's code
// has just released its outermost lock (yield points, harness/yields.txt). The
// choice is an input, so the solver-side exploration covers every such schedule
// and the native replay executes the chosen one deterministically.
func vhInterleave(name string, maxYields int, a, b func()) {
	at := vChoice(name, maxYields+2) // 0: b first; k: at the k-th yield; beyond the last: b afterwards
	ran := false
	seen := 0
	inB := false
	if at == 0 {
		b()
		ran = true
	}
	VerifSetYieldHook(func() {
		if inB || ran {
			return
		}
		seen++
		if seen == at {
			inB, ran = true, true
			b()
			inB = false
		}
	})
	a()
	VerifSetYieldHook(nil)
	if !ran {
		b()
	}
	vTag(name+"_yields_seen", seen)
}

type vhC17Obs struct {
	ra, rb     int
	s0, s1, by int
	size       int
}

func vhC17Tag(e *SessionEntry, ok bool) int {
	if !ok || e == nil {
		return 0
	}
	if e.Addr() == "<new>" {
		return 2
	}
	return 1
}

// VH_C17_CacheAtomicity: every public session-cache operation is atomic with
// respect to every other one. From a cache holding a session s0 in an arbitrary
// expiry state (with a command route) and a live session s1, operation A runs
// with operation B executed at an arbitrary lock-release point inside it (or
// before / after it); what both return and what every lookup finds afterwards
// equals what one of the two serial orders A;B or B;A gives from the same state.
// A store that completed is therefore never undone, and an invalidation never
// lost, by an operation that was already under way.
//
//verif:unwind 8
func VH_C17_CacheAtomicity() {
	vClockWindow(int64(30 * time.Second))
	base := time.Now()
	off := vInt64("s0_expOff")
	vAssume(off >= -int64(2*time.Hour) && off <= int64(2*time.Hour))
	vAssume(off <= -int64(2*time.Minute) || off >= int64(2*time.Minute))
	mk := func() *SessionCache {
		c := NewSessionCache()
		key := &KeyInfo{Data: []byte("0123456789abcdef0123456789abcdef"), Protocol: "AES"}
		c.Store(NewSessionEntry("s0", "<old>", key, classad.New(), base.Add(time.Duration(off)), 0, ""))
		c.Store(NewSessionEntry("s1", "<old>", key, classad.New(), time.Time{}, 0, ""))
		c.MapCommand("", "<a:1>", "7", "s0")
		return c
	}
	opA := vChoice("opA", 6)
	opB := vChoice("opB", 5)
	do := func(c *SessionCache, op int, res *int) {
		switch op {
		case 0:
			e, ok := c.LookupNonExpired("s0")
			*res = vhC17Tag(e, ok)
		case 1:
			e, ok := c.LookupByCommand("", "<a:1>", "7")
			*res = vhC17Tag(e, ok)
		case 2:
			*res = c.InvalidateExpired()
		case 3:
			*res = vhB2I(c.Invalidate("s0"))
		case 4:
			key := &KeyInfo{Data: []byte("fedcba9876543210fedcba9876543210"), Protocol: "AES"}
			c.Store(NewSessionEntry("s0", "<new>", key, classad.New(), time.Time{}, 0, ""))
			c.MapCommand("", "<a:1>", "7", "s0")
		case 5:
			e, ok := c.Lookup("s0")
			*res = vhC17Tag(e, ok)
		}
	}
	observe := func(c *SessionCache, o *vhC17Obs) {
		e, ok := c.LookupNonExpired("s0")
		o.s0 = vhC17Tag(e, ok)
		e, ok = c.LookupNonExpired("s1")
		o.s1 = vhC17Tag(e, ok)
		e, ok = c.LookupByCommand("", "<a:1>", "7")
		o.by = vhC17Tag(e, ok)
		o.size = c.Size()
	}
	// the two serial orders
	var ab, ba, il vhC17Obs
	c1 := mk()
	do(c1, opA, &ab.ra)
	do(c1, 1+opB%5, &ab.rb)
	observe(c1, &ab)
	c2 := mk()
	do(c2, 1+opB%5, &ba.rb)
	do(c2, opA, &ba.ra)
	observe(c2, &ba)
	// an interleaved execution
	c3 := mk()
	vhInterleave("b_at", 3, func() { do(c3, opA, &il.ra) }, func() { do(c3, 1+opB%5, &il.rb) })
	observe(c3, &il)
	same := func(x, y *vhC17Obs) bool {
		return vAnd(vAnd(x.ra == y.ra, x.rb == y.rb), vAnd(vAnd(x.s0 == y.s0, x.s1 == y.s1), vAnd(x.by == y.by, x.size == y.size)))
	}
	vAssert(vOr(same(&il, &ab), same(&il, &ba)), "interleaved-outcome-is-one-of-the-two-serial-outcomes")
	vCover("pair-explored")
}

// VH_C17_LostInvalidation: a server resumes a session (real
// handleSessionResumption over typed queues, the session in the configured cache
// or in the global one) while the session is invalidated from another goroutine:
// the invalidation runs at an arbitrary lock-release point of the cache code
// inside the resumption (or before / after it). Once both have finished and the
// invalidation reported that it removed the session, no lookup finds it any more:
// an invalidation is never undone by a resumption that was already under way.
//
//verif:unwind 6
func VH_C17_LostInvalidation() {
	st := stream.NewStream(&vhConn{})
	st.SetPeerAddr("<198.51.100.7:40000>")
	io_ := &vhIO{st: st}
	defer vhInstall(io_)()
	vhStubCrypto("")
	cache := NewSessionCache()
	global := vBool("session_in_global_cache")
	key := &KeyInfo{Data: []byte("0123456789abcdef0123456789abcdef"), Protocol: "AES"}
	pol := classad.New()
	_ = pol.Set("Encryption", "YES")
	_ = pol.Set("CryptoMethods", "AES")
	entry := NewSessionEntry("sess-1", "<198.51.100.7:40000>", key, pol, time.Time{}, time.Duration(vIteInt(vBool("has_lease"), int(30*time.Minute), 0)), "")
	home := cache
	if global {
		home = GetSessionCache()
	}
	home.Store(entry)
	defer GetSessionCache().Invalidate("sess-1")
	cfg := &SecurityConfig{Authentication: SecurityRequired, Encryption: SecurityOptional, SessionCache: cache}
	a := &Authenticator{config: cfg, stream: st}
	req := classad.New()
	_ = req.Set("ResumeResponse", vBool("wants_reply"))
	removed := false
	var rerr error
	vhInterleave("invalidate_at", 6,
		func() { _, rerr = a.handleSessionResumption(vhCtx, "sess-1", req, commands.DC_AUTHENTICATE) },
		func() { removed = home.Invalidate("sess-1") })
	if rerr == nil {
		vCover("resumption-went-ahead")
	} else {
		vCover("resumption-refused")
	}
	vAssert(removed, "invalidate-reports-presence")
	_, l1 := cache.LookupNonExpired("sess-1")
	_, l2 := GetSessionCache().LookupNonExpired("sess-1")
	_, l3 := home.Lookup("sess-1")
	vAssert(!l1 && !l2 && !l3, "completed-invalidation-is-not-undone-by-a-resumption-under-way")
}

// VH_C17_LostInvalidationClient: the same on the client: resumeSession rides a
// cached session (the server answers AUTHORIZED) while another goroutine of the
// same client drops that session (as a failed resumption on another connection
// does). After both finished the dropped session is reachable neither by id nor
// through its command route.
//
//verif:unwind 6
func VH_C17_LostInvalidationClient() {
	st := stream.NewStream(&vhConn{})
	io_ := &vhIO{st: st}
	defer vhInstall(io_)()
	vhStubCrypto("")
	cache := NewSessionCache()
	key := &KeyInfo{Data: []byte("0123456789abcdef0123456789abcdef"), Protocol: "AES"}
	pol := classad.New()
	_ = pol.Set("Encryption", "YES")
	_ = pol.Set("CryptoMethods", "AES")
	_ = pol.Set("User", "alice@pool")
	entry := NewSessionEntry("sess-1", "<192.0.2.1:9618>", key, pol, time.Time{}, time.Duration(vIteInt(vBool("has_lease"), int(30*time.Minute), 0)), "")
	cache.Store(entry)
	cache.MapCommand("", "<192.0.2.1:9618>", "60007", "sess-1")
	cfg := &SecurityConfig{Authentication: SecurityOptional, Encryption: SecurityOptional, SessionCache: cache, Command: 60007, PeerName: "<192.0.2.1:9618>"}
	a := &Authenticator{config: cfg, stream: st}
	resp := classad.New()
	_ = resp.Set("ReturnCode", "AUTHORIZED")
	_ = resp.Set("Sid", "sess-1")
	io_.peer = func(k int) []vhItem {
		if k > 0 {
			return nil
		}
		return []vhItem{{kind: vkAd, ad: resp}}
	}
	removed := false
	var rerr error
	vhInterleave("invalidate_at", 40,
		func() { _, rerr = a.resumeSession(vhCtx, entry, cache) },
		func() { removed = cache.Invalidate("sess-1") })
	if rerr == nil {
		vCover("resumption-went-ahead")
	}
	vAssert(removed, "invalidate-reports-presence")
	_, l1 := cache.Lookup("sess-1")
	_, l2 := cache.LookupByCommand("", "<192.0.2.1:9618>", "60007")
	vAssert(!l1 && !l2, "completed-invalidation-is-not-undone-by-a-resumption-under-way")
	vTag("yields", 0)
}

package security

import (
	"net"
	"regexp"
	"strings"
)

func init() {
	vRegister("VH_C18_ValidateLocal", VH_C18_ValidateLocal)
	vRegister("VH_C18_ValidateRemote", VH_C18_ValidateRemote)
}

type vhPeerAddr struct{ s string }

func (a vhPeerAddr) Network() string { return "tcp" }
func (a vhPeerAddr) String() string  { return a.s }

// independent statement of the accepted leaf shapes (DESIGN appendix A.5)
var vhSpecLocal = regexp.MustCompile(`^FS_[A-Za-z0-9]{1,16}$`)
var vhSpecRemote = regexp.MustCompile(`^FS_REMOTE_[A-Za-z0-9._\-]+_[0-9]+_[A-Za-z0-9]{1,16}$`)
var vhSpecAddrLocal = regexp.MustCompile(`^FS_[^_]+_[0-9]{1,5}_[A-Za-z0-9]{1,16}$`)
var vhSpecAddrRemote = regexp.MustCompile(`^FS_REMOTE_[^_]+_[0-9]{1,5}_[A-Za-z0-9]{1,16}$`)

func vhValidate(remote bool, maxPath int) {
	p := vString("path", maxPath)
	vAssume(vASCIIStr(p))
	peer := vString("peer", 12)
	vAssume(vASCIIStr(peer))
	// IPv4 endpoints: IPv6 texts are only modelled as an uninterpreted function
	vAssume(vAnd(vNoneOf(p, ":"), vNoneOf(peer, "[]")))
	var addr net.Addr
	if vBool("hasPeer") {
		addr = vhPeerAddr{peer}
	}
	leaf, err := validateFSAuthPath(p, remote, addr)
	if err != nil {
		vCover("path-rejected")
		return
	}
	vCover("path-accepted")
	// directly under the fixed base, byte for byte
	vAssert(p == "/tmp/"+leaf, "accepted-path-is-base-slash-leaf")
	vAssert(len(leaf) > 0 && vNoneOf(leaf, "/\x00") && leaf != "." && leaf != "..", "leaf-is-a-single-safe-component")
	// one of the recognised shapes
	spec, specAddr := vhSpecLocal, vhSpecAddrLocal
	prefix := "FS_"
	if remote {
		spec, specAddr = vhSpecRemote, vhSpecAddrRemote
		prefix = "FS_REMOTE_"
	}
	vAssert(vOr(spec.MatchString(leaf), specAddr.MatchString(leaf)), "leaf-has-a-recognised-shape")
	// address-qualified names must name the endpoint really connected to
	if strings.HasPrefix(leaf, prefix) && (remote || !strings.HasPrefix(leaf[len(prefix):], "REMOTE_")) {
		f := strings.Split(leaf[len(prefix):], "_")
		if len(f) == 3 && specAddr.MatchString(leaf) {
			if ip := net.ParseIP(f[0]); ip != nil {
				vCover("address-qualified-accepted")
				vAssert(addr != nil, "address-qualified-needs-a-connection-address")
				if addr != nil {
					h, pt, e := net.SplitHostPort(peer)
					vAssert(e == nil, "peer-address-parses")
					if e == nil {
						vAssert(f[1] == pt, "port-is-the-connections-port")
						ph := net.ParseIP(h)
						vAssert(ph != nil && ip.Equal(ph), "ip-is-the-connections-ip")
					}
				}
			}
		}
	}
}

// VH_C18_ValidateLocal: the real validateFSAuthPath / fsAddrLeaf /
// verifyFSPathEndpoint over an arbitrary server-supplied path (<= 24 bytes) and an
// arbitrary connection address: whatever is accepted lies directly under /tmp,
// is a single safe component of a recognised shape, and an address-qualified
// name names the endpoint actually connected to.
//
//verif:unwind 24
func VH_C18_ValidateLocal() { vhValidate(false, 24) }

// VH_C18_ValidateRemote: the same for the FS_REMOTE variant (<= 30 bytes).
//
//verif:unwind 30
func VH_C18_ValidateRemote() { vhValidate(true, 30) }

package security

import (
	"os"
	"os/user"
	"strconv"

	"github.com/bbockelm/cedar/stream"
)

func init() {
	vRegister("VH_C18_ServerVerdict", VH_C18_ServerVerdict)
	vRegister("VH_C18_ClientEffects", VH_C18_ClientEffects)
}

var vhC18Perms = []int{0o700, 0o755, 0o777, 0o500, 0o000, 0o701, 0o600}

// VH_C18_ServerVerdict: the real performFSAuthenticationServer against every kind
// of object a client might leave at the agreed path -- nothing, a directory of any
// of seven permission sets with 0-2 subdirectories, a regular file, a symlink to
// an owner-only directory, a symlink to a file, a dangling symlink -- and either
// client verdict. The server accepts only when the client reported success and the
// object is a real directory (not a link to one), mode exactly 0700, link count
// at most 2; the identity it records is that directory's owner; whatever was at
// the path is gone afterwards and the verdict it sends matches its own result.
// The filesystem is the engine's model (DESIGN 3.2); natively the harness plants
// the same objects under /tmp.
//
//verif:unwind 6
func VH_C18_ServerVerdict() {
	st := stream.NewStream(&vhConn{})
	io_ := &vhIO{st: st}
	defer vhInstall(io_)()
	a := &Authenticator{config: &SecurityConfig{}, stream: st}
	neg := &SecurityNegotiation{ServerConfig: &SecurityConfig{TrustDomain: "pool"}, ClientConfig: &SecurityConfig{}}
	object := vChoice("object", 6)
	perm := vhC18Perms[vChoice("perm", len(vhC18Perms))]
	subdirs := vChoice("subdirs", 3)
	claim := vChoice("client_result", 2) - 1 // -1 or 0
	path, target := "", ""
	io_.peer = func(k int) []vhItem {
		if k != 0 {
			return nil
		}
		if len(io_.sent) != 1 || len(io_.sent[0]) != 1 || io_.sent[0][0].kind != vkStr {
			vAssert(false, "server-sends-the-path-first")
			return nil
		}
		path = io_.sent[0][0].s
		mkdir := func(p string) {
			if os.Mkdir(p, 0o700) != nil || os.Chmod(p, os.FileMode(perm)) != nil {
				vAssume(false)
			}
			for i := 0; i < subdirs; i++ {
				// (a mode without owner write/search cannot take children: skip)
				_ = os.Chmod(p, 0o700)
				if os.Mkdir(p+"/sub"+strconv.Itoa(i), 0o700) != nil {
					vAssume(false)
				}
				_ = os.Chmod(p, os.FileMode(perm))
			}
		}
		switch object {
		case 0:
		case 1:
			mkdir(path)
		case 2:
			if os.WriteFile(path, []byte("x"), os.FileMode(perm)) != nil {
				vAssume(false)
			}
		case 3:
			t, err := os.MkdirTemp("/tmp", "vh_c18_target_*")
			if err != nil {
				vAssume(false)
			}
			target = t
			if os.Chmod(target, 0o700) != nil || os.Symlink(target, path) != nil {
				vAssume(false)
			}
		case 4:
			target = path + "_file"
			if os.WriteFile(target, []byte("x"), 0o700) != nil || os.Symlink(target, path) != nil {
				vAssume(false)
			}
		case 5:
			if os.Symlink("/tmp/vh_c18_no_such_target", path) != nil {
				vAssume(false)
			}
		}
		return []vhItem{{kind: vkInt, i: claim}}
	}
	err := a.performFSAuthenticationServer(vhCtx, neg, false)
	defer func() {
		if path != "" {
			_ = os.Chmod(path, 0o700)
			_ = os.RemoveAll(path)
		}
		if target != "" {
			_ = os.RemoveAll(target)
		}
	}()
	vAssert(path != "" && len(path) > 5 && path[:5] == "/tmp/", "agreed-path-is-under-the-base")
	verdictSent := len(io_.sent) == 2 && len(io_.sent[1]) == 1 && io_.sent[1][0].kind == vkInt
	vAssert(verdictSent, "server-sends-its-verdict")
	if verdictSent {
		vAssert((io_.sent[1][0].i == 0) == (err == nil), "verdict-sent-is-the-servers-own-result")
	}
	if err != nil {
		vCover("server-refuses")
		vAssert(neg.User == "", "no-identity-on-refusal")
	} else {
		vCover("server-accepts")
		vAssert(claim == 0, "accepted-only-if-the-client-reported-success")
		vAssert(object == 1, "accepted-only-a-real-directory-not-a-link-or-file")
		vAssert(perm == 0o700, "accepted-only-owner-only-mode")
		vAssert(subdirs == 0, "accepted-only-link-count-at-most-two")
		me, uerr := user.LookupId(strconv.Itoa(os.Geteuid()))
		vAssert(uerr == nil && neg.User == me.Username, "identity-recorded-is-the-directory-owner")
	}
	if claim == 0 && object != 0 {
		// the server cleans up what the client reported to have created
		_, lerr := os.Lstat(path)
		if object == 1 && subdirs == 0 || object != 1 {
			vAssert(lerr != nil, "object-at-the-path-removed-after-the-exchange")
		}
	}
}

func vhTmpNames() []string {
	es, err := os.ReadDir("/tmp")
	if err != nil {
		vAssume(false)
	}
	var out []string
	for _, e := range es {
		out = append(out, e.Name())
	}
	return out
}

// vhScrub (native replay only): a directory left at the supplied path by an earlier
// replay of a broken tree would make this replay's mkdir fail; remove it (empty
// FS_* directories directly under /tmp only). The engine's /tmp starts empty.
func vhScrub(p string) {
	if vIsNative() && len(p) > 8 && p[:8] == "/tmp/FS_" {
		_ = os.Remove(p)
	}
}

func vhHasName(names []string, n string) bool {
	r := false
	for _, x := range names {
		r = vOr(r, x == n)
	}
	return r
}

// VH_C18_ClientEffects: the real performFSAuthenticationClient against a server
// that supplies an arbitrary path (<= 13 bytes) and an arbitrary verdict. While
// the server "verifies" (between the client's reply and the verdict) the base
// directory holds at most one entry it did not hold before: it is there exactly
// when the client replied 0, it is a directory of mode 0700 at exactly the
// supplied path, and the real validator accepts that path (whose own correctness
// is VH_C18_Validate*); a client that replies -1 has changed nothing. After the
// exchange the base directory is as it was before, whatever the verdict.
//
//verif:unwind 16
func VH_C18_ClientEffects() {
	st := stream.NewStream(&vhConn{})
	io_ := &vhIO{st: st}
	defer vhInstall(io_)()
	a := &Authenticator{config: &SecurityConfig{}, stream: st}
	neg := &SecurityNegotiation{ServerConfig: &SecurityConfig{}, ClientConfig: &SecurityConfig{}, IsClient: true}
	p := vString("path", 13)
	vAssume(vASCIIStr(p))
	vAssume(vNoneOf(p, ":"))
	verdict := vChoice("verdict", 2) - 1
	vhScrub(p)
	defer vhScrub(p)
	before := vhTmpNames()
	checked := false
	io_.peer = func(k int) []vhItem {
		switch k {
		case 0:
			return []vhItem{{kind: vkStr, s: p}}
		case 1:
			// the client has replied; look at what it did
			if len(io_.sent) != 1 || len(io_.sent[0]) != 1 || io_.sent[0][0].kind != vkInt {
				vAssert(false, "client-replies-with-its-result")
				return nil
			}
			res := io_.sent[0][0].i
			vAssert(res == 0 || res == -1, "client-result-is-0-or-minus-1")
			now := vhTmpNames()
			added := 0
			for _, n := range now {
				if !vhHasName(before, n) {
					added++
					vAssert(p == "/tmp/"+n, "only-the-supplied-path-is-created")
				}
			}
			vAssert(added <= 1, "at-most-one-directory-created")
			vAssert((added == 1) == (res == 0), "client-reports-success-exactly-when-it-created-the-directory")
			if added == 1 {
				vCover("directory-created")
				_, verr := validateFSAuthPath(p, false, nil)
				vAssert(verr == nil, "created-only-for-a-path-the-validator-accepts")
				fi, lerr := os.Lstat(p)
				vAssert(lerr == nil && fi.Mode().IsDir() && fi.Mode().Perm() == 0o700, "created-object-is-an-owner-only-directory")
			} else {
				vCover("nothing-created")
			}
			for _, n := range before {
				vAssert(vhHasName(now, n), "nothing-else-removed")
			}
			checked = true
			return []vhItem{{kind: vkInt, i: verdict}}
		}
		return nil
	}
	err := a.performFSAuthenticationClient(vhCtx, neg, false)
	vAssert(checked, "exchange-reached-the-verdict")
	vAssert((err == nil) == (verdict == 0), "client-outcome-is-the-servers-verdict")
	after := vhTmpNames()
	vAssert(len(after) == len(before), "base-directory-as-before-after-the-exchange")
	for _, n := range after {
		vAssert(vhHasName(before, n), "whatever-was-created-is-removed")
	}
}

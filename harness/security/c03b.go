package security

import (
	"github.com/PelicanPlatform/classad/classad"
	"github.com/bbockelm/cedar/commands"
	"github.com/bbockelm/cedar/stream"
)

func init() {
	vRegister("VH_C03_ServerPerCommand", VH_C03_ServerPerCommand)
}

// VH_C03_ServerPerCommand: a server's own policy for a connection is the one its
// ServerConfigForCommand hook hands out for the command the client names (when the
// hook has one), not the connection-wide default. The whole real ServerHandshake
// (method bodies, ECDH and HKDF stubbed, typed queues) runs with an arbitrary
// default policy, an arbitrary per-command policy (all three levels, own method
// and cipher lists), and a client of arbitrary levels that may omit its key-
// exchange material or offer no usable cipher. If the handshake succeeds, what
// the *applicable* policy marks REQUIRED really happened: encryption or integrity
// REQUIRED => the stream is keyed; authentication REQUIRED => a method listed by
// the applicable policy completed; and the reported encryption flag is the
// stream's state.
//
//verif:unwind 6
func VH_C03_ServerPerCommand() {
	st := stream.NewStream(&vhConn{})
	st.SetPeerAddr("<198.51.100.7:40000>")
	io_ := &vhIO{st: st}
	defer vhInstall(io_)()
	vhC04Stubs()
	base := &SecurityConfig{Authentication: vhLevel("bAuth"), Encryption: vhLevel("bEnc"), Integrity: vhLevel("bInt"),
		AuthMethods: []AuthMethod{AuthFS}, CryptoMethods: []CryptoMethod{CryptoAES}, ECDHPublicKey: "T1dOLUVDREgtS0VZ", SessionCache: NewSessionCache()}
	per := &SecurityConfig{Authentication: vhLevel("pAuth"), Encryption: vhLevel("pEnc"), Integrity: vhLevel("pInt"),
		AuthMethods: []AuthMethod{AuthSSL}, CryptoMethods: []CryptoMethod{CryptoAES}, SessionCache: base.SessionCache}
	a := &Authenticator{config: base, stream: st}
	hookHasPolicy := vBool("hook_has_policy")
	asked := -1
	a.ServerConfigForCommand = func(cmd int) *SecurityConfig {
		asked = cmd
		if hookHasPolicy {
			return per
		}
		return nil
	}
	own := base
	if hookHasPolicy {
		own = per
	}
	cli := classad.New()
	_ = cli.Set("Authentication", vPick("cAuth", vhLevelNames))
	_ = cli.Set("Encryption", vPick("cEnc", vhLevelNames))
	_ = cli.Set("Integrity", vPick("cInt", vhLevelNames))
	_ = cli.Set("Command", 60007)
	_ = cli.Set("AuthMethods", "FS,SSL")
	offersAES := vBool("client_offers_aes")
	sendsKey := vBool("client_sends_key")
	// without a per-command policy this is the ordinary handshake the other C03
	// harnesses decide: keep only the cooperative client there
	vAssume(vOr(hookHasPolicy, vAnd(offersAES, sendsKey)))
	if offersAES {
		_ = cli.Set("CryptoMethods", "AES")
	} else {
		_ = cli.Set("CryptoMethods", "BLOWFISH")
	}
	if sendsKey {
		_ = cli.Set("ECDHPublicKey", "UEVFUi1FQ0RILUtFWQ==")
	}
	round := 0
	io_.peer = func(k int) []vhItem {
		if k >= len(vhEOFNames) || vBool(vhEOFNames[k]) {
			return nil
		}
		if k == 0 {
			return []vhItem{{kind: vkInt, i: commands.DC_AUTHENTICATE}, {kind: vkAd, ad: cli}}
		}
		if round >= vhRounds() {
			return nil
		}
		round++
		return []vhItem{{kind: vkInt, i: vInt(vhBMNames[round-1])}}
	}
	neg, err := a.ServerHandshake(vhCtx)
	if err != nil {
		vCover("handshake-fails")
		return
	}
	vCover("handshake-succeeds")
	vAssert(asked == 60007, "hook-consulted-for-the-clients-command")
	enc := st.IsEncrypted()
	vAssert(vImplies(vOr(own.Encryption == SecurityRequired, own.Integrity == SecurityRequired), enc), "required-encryption-or-integrity-of-the-applicable-policy-means-a-keyed-stream")
	vAssert(neg.Encryption == enc, "reported-encryption-equals-stream-state")
	m, ran := vhRanOK()
	if own.Authentication == SecurityRequired {
		vAssert(ran && vhListed(own.AuthMethods, m), "required-authentication-of-the-applicable-policy-ran-a-method-it-lists")
		vCover("per-command-authentication-required")
	}
	if ran {
		vAssert(vhListed(own.AuthMethods, m), "only-methods-of-the-applicable-policy-run")
	}
	if enc {
		vCover("keyed")
	}
}

package security

import (
	"strconv"
	"strings"
	"time"

	"github.com/PelicanPlatform/classad/classad"
)

func init() {
	vRegister("VH_C16_Parse", VH_C16_Parse)
	vRegister("VH_C16_Policy", VH_C16_Policy)
	vRegister("VH_C16_MintImport", VH_C16_MintImport)
	vRegister("VH_C16_Expiry", VH_C16_Expiry)
	vRegister("VH_C16_LifetimeAgreement", VH_C16_LifetimeAgreement)
	vRegister("VH_C16_KeyDerivation", VH_C16_KeyDerivation)
}

// VH_C16_Parse: for any session id (may itself contain '#', brackets and sinful
// brackets), any bracketed info without '#', and any key without '#' and ']',
// ParseClaimIDStrict(sid + "#" + info + key) returns exactly the three parts,
// and the public form is the session id followed by "#..." (nothing of the key).
func VH_C16_Parse() {
	sid := vString("sid", 5)
	inner := vString("info", 4)
	key := vString("key", 5)
	vAssume(vNoneOf(inner, "#"))
	vAssume(vNoneOf(key, "#]"))
	info := "[" + inner + "]"
	c := ParseClaimIDStrict(sid + "#" + info + key)
	vAssertStrEqual(c.sessionID, sid, "session-id-recovered")
	vAssertStrEqual(c.sessionInfo, info, "session-info-recovered")
	vAssertStrEqual(c.sessionKey, key, "session-key-recovered")
	pub := c.PublicClaimID()
	if len(sid) > 0 {
		vAssertStrEqual(pub, sid+"#...", "public-form-is-id-and-ellipsis")
	} else {
		vAssert(pub == "", "no-public-form-without-id")
	}
	vAssert(c.SecSessionID() == sid, "sec-session-id")
	vCover("claim-id-parsed")
}

var vhYesNo = []string{"YES", "NO", "REQUIRED", ""}
var vhCmdTexts = []string{"", "60007", "60007,421", "5,60007"}
var vhCryptoTexts = []string{"", "AES", "AES,BLOWFISH", "AES, BLOWFISH", "AESGCM"}
var vhExpiries = []int64{0, 7, 1700000000, 3999999999}
var vhVersionTexts = []string{"", "25.4.0", "$CondorVersion: 25.4.0 2025-10-31 BuildID: 847437 $", "9.0.17"}

// VH_C16_Policy: ImportSecSessionInfo(ExportSecSessionInfo(p)) preserves
// Encryption, Integrity, ValidCommands, CryptoMethods (as a comma list),
// SessionExpires and maps RemoteVersion to its short form.
//
//verif:unwind 12
func VH_C16_Policy() {
	p := classad.New()
	// the text positions inside the exported string depend on every value's
	// length, so the values are case-split (concrete per path) rather than merged
	enc := vhYesNo[vChoice("enc", len(vhYesNo))]
	integ := vhYesNo[vChoice("integ", len(vhYesNo))]
	cmds := vhCmdTexts[vChoice("cmds", len(vhCmdTexts))]
	cm := vhCryptoTexts[vChoice("crypto", len(vhCryptoTexts))]
	rv := vhVersionTexts[vChoice("version", len(vhVersionTexts))]
	exp := vhExpiries[vChoice("expires", len(vhExpiries))]
	_ = p.Set("Encryption", enc)
	_ = p.Set("Integrity", integ)
	_ = p.Set("ValidCommands", cmds)
	_ = p.Set("CryptoMethods", cm)
	_ = p.Set("RemoteVersion", rv)
	_ = p.Set("SessionExpires", exp)
	info, err := ExportSecSessionInfo(p)
	vAssert(err == nil, "export-succeeds")
	if err != nil {
		return
	}
	vAssert(len(info) >= 2 && info[0] == '[' && info[len(info)-1] == ']', "info-is-bracketed")
	q, ierr := ImportSecSessionInfo(info)
	vAssert(ierr == nil, "import-accepts-exported-info")
	if ierr != nil {
		return
	}
	same := func(attr, want string) bool {
		got, ok := q.EvaluateAttrString(attr)
		return vOr(vAnd(want == "", !ok), vAnd(ok, got == want))
	}
	vAssert(same("Encryption", enc), "encryption-preserved")
	vAssert(same("Integrity", integ), "integrity-preserved")
	vAssert(same("ValidCommands", cmds), "valid-commands-preserved")
	vAssert(same("CryptoMethods", cm), "crypto-methods-preserved")
	short := vIteStr(rv == "$CondorVersion: 25.4.0 2025-10-31 BuildID: 847437 $", "25.4.0", rv)
	vAssert(same("RemoteVersion", short), "version-mapped-to-short-form")
	// SessionExpires travels as text
	got, ok := q.EvaluateAttrString("SessionExpires")
	if exp == 0 {
		vAssert(!ok, "zero-expiry-omitted")
	} else {
		vAssert(ok, "expiry-present")
		n, perr := parseInt64(got)
		vAssert(perr && n == exp, "expiry-preserved")
	}
	vCover("policy-roundtrip")
}

// parseInt64 is a tiny decimal parser for the harness (keeps the oracle
// independent of strconv).
func parseInt64(s string) (int64, bool) {
	if len(s) == 0 || len(s) > 18 {
		return 0, false
	}
	var n int64
	for i := 0; i < len(s); i++ {
		if s[i] < '0' || s[i] > '9' {
			return 0, false
		}
		n = n*10 + int64(s[i]-'0')
	}
	return n, true
}

// VH_C16_MintImport: MintClaimSession on one cache and ImportClaimSession of the
// minted claim id on another, over the option space (tag, commands, extra
// commands, encryption/integrity flags, cipher list, lifetime): both sides hold
// an entry with the same session id, the same derived key, the same policy
// attributes and expiry, filed under the configured tag, and reachable through
// the command map for every valid command under that tag; the public form ends
// in "#..." and does not contain the secret.
//
//verif:unwind 12
func VH_C16_MintImport() {
	vClockWindow(int64(time.Minute))
	secret := "5ec2e7c0ffee5ec2e7c0ffee5ec2e7c0ffee5ec2e7c0ffee5ec2e7c0ffee5ec2"
	VerifHook_randomHexKey = func(n int) (string, error) { return secret, nil }
	keys := map[string][]byte{}
	knames := [2]string{"derived_key_a", "derived_key_b"}
	VerifHook_deriveSessionKey = func(sk string, n int) ([]byte, error) {
		if k, ok := keys[sk]; ok {
			return k, nil
		}
		if len(keys) >= len(knames) {
			vAssume(false)
		}
		k := vBlob(knames[len(keys)], 32)
		keys[sk] = k
		return k, nil
	}
	defer func() {
		VerifHook_randomHexKey = nil
		VerifHook_deriveSessionKey = nil
	}()
	tag := []string{"", "ctx1"}[vChoice("tag", 2)]
	peer := "<192.0.2.9:9618>"
	var valid []int
	switch vChoice("valid", 3) {
	case 1:
		valid = []int{60007}
	case 2:
		valid = []int{60007, 421}
	}
	var extra []int
	if vBool("extra") {
		extra = []int{7}
	}
	tr, fa := true, false
	flags := []*bool{nil, &tr, &fa}
	opts := MintClaimOptions{
		Sinful: "<10.0.0.1:9618>", Birthdate: 1700000000, SequenceNum: 3,
		PeerAddr: peer, Tag: tag, ValidCommands: valid, ExtraValidCommands: extra,
		Encryption: flags[vChoice("enc", 3)], Integrity: flags[vChoice("integ", 3)],
		CryptoMethods: []string{"", "AES", "AES,BLOWFISH"}[vChoice("crypto", 3)],
	}
	// a lifetime puts the (symbolic) clock reading, rendered in decimal, into the
	// claim text; that variant is outside the quick tier
	mc, ic := NewSessionCache(), NewSessionCache()
	minted, err := MintClaimSession(mc, opts)
	vAssert(err == nil, "mint-succeeds")
	if err != nil {
		return
	}
	iopts := ClaimSessionOptions{PeerAddr: peer, Tag: tag, ExtraValidCommands: extra, Duration: opts.Lifetime}
	// the importer's cache is not necessarily empty: it may already hold a session
	// under this id from an import of the same public part with another secret (a
	// stale or forged claim), or from an earlier import of this very claim
	secret2 := "0dd5ec2e70dd5ec2e70dd5ec2e70dd5ec2e70dd5ec2e70dd5ec2e70dd5ec2e70"
	forged := strings.TrimSuffix(minted.ClaimID(), secret) + secret2
	prior := vChoice("prior_import", 5) // 0 none, 1 other secret first, 2 same claim first, 3 other secret afterwards, 4 an older claim of the same peer holds the route
	if prior == 4 && len(valid) > 0 {
		// an earlier, still live claim session of the same peer is routed for the same
		// command: importing the new claim must route the command to the new session
		older := NewSessionEntry("older-claim#1", peer, &KeyInfo{Data: []byte("0123456789abcdef0123456789abcdef"), Protocol: "AES"}, classad.New(), time.Time{}, 0, tag)
		ic.Store(older)
		ic.MapCommand(tag, peer, "60007", "older-claim#1")
	}
	switch prior {
	case 1:
		_, _ = ImportClaimSession(ic, forged, iopts)
	case 2:
		_, _ = ImportClaimSession(ic, minted.ClaimID(), iopts)
	}
	sid, ierr := ImportClaimSession(ic, minted.ClaimID(), iopts)
	vAssert(ierr == nil, "import-accepts-minted-claim")
	if prior == 3 && ierr == nil {
		// someone who holds a different secret imports into the same cache: whatever
		// that leaves under the id is keyed from *that* secret, not the minter's
		fsid, ferr := ImportClaimSession(ic, forged, iopts)
		if ferr == nil {
			fe, fok := ic.Lookup(fsid)
			vAssert(fok && fe.KeyInfo() != nil, "both-sides-keyed")
			if fok && fe.KeyInfo() != nil && keys[secret2] != nil {
				vAssertBytesEqual(fe.KeyInfo().Data, keys[secret2], "an-import-leaves-the-key-derived-from-the-imported-secret")
				vCover("other-secret-imported-afterwards")
			} else {
				vAssert(keys[secret2] != nil, "an-import-leaves-the-key-derived-from-the-imported-secret")
			}
		}
		return
	}
	if ierr != nil {
		return
	}
	vAssert(sid == minted.SessionID(), "same-session-id")
	me, mok := mc.Lookup(sid)
	ie, iok := ic.Lookup(sid)
	vAssert(mok && iok, "both-sides-hold-the-session")
	if !mok || !iok {
		return
	}
	vAssert(me.KeyInfo() != nil && ie.KeyInfo() != nil, "both-sides-keyed")
	if me.KeyInfo() != nil && ie.KeyInfo() != nil {
		vAssertBytesEqual(me.KeyInfo().Data, ie.KeyInfo().Data, "same-derived-key")
		vAssert(me.KeyInfo().Protocol == ie.KeyInfo().Protocol, "same-cipher")
	}
	vAssert(me.Tag() == tag && ie.Tag() == tag, "filed-under-the-configured-tag")
	for _, attr := range []string{"Encryption", "Integrity", "CryptoMethods", "ValidCommands", "SessionExpires"} {
		a, aok := me.Policy().EvaluateAttrString(attr)
		b, bok := ie.Policy().EvaluateAttrString(attr)
		vAssert(aok == bok && a == b, "same-policy-attribute")
	}
	vAssert(me.Expiration().Equal(ie.Expiration()), "same-expiry")
	all := append(append([]int{}, valid...), extra...)
	for _, c := range all {
		cs := "7"
		if c == 60007 {
			cs = "60007"
		} else if c == 421 {
			cs = "421"
		}
		e1, ok1 := mc.LookupByCommand(tag, peer, cs)
		e2, ok2 := ic.LookupByCommand(tag, peer, cs)
		vAssert(ok1 && e1 == me, "minter-reaches-the-session-by-command-under-its-tag")
		vAssert(ok2 && e2 == ie, "importer-reaches-the-session-by-command-under-its-tag")
	}
	pub := minted.PublicClaimID()
	vAssert(strings.HasSuffix(pub, "#...") && !strings.Contains(pub, secret), "public-form-hides-the-secret")
	vAssert(strings.HasSuffix(minted.ClaimID(), secret), "claim-id-carries-the-secret-last")
	vCover("mint-import-agree")
}

// VH_C16_Expiry: both ends of a claim derive the expiry from the policy text by
// claimExpiration. For every embedded absolute SessionExpires (1 .. 2^40 s) and
// whatever the clock reads -- before or after that instant -- the result is exactly
// that instant, so minter and importer agree on it whenever each of them evaluates
// it; without the attribute (or with 0) the fallback lifetime, or no expiry, applies.
//
//verif:unwind 16
func VH_C16_Expiry() {
	// the instant is placed relative to the harness's own clock reading (at least
	// ten seconds away from it) so that the native clock agrees about the side
	base := time.Now().Unix()
	off := vInt64("off")
	vAssume(off >= -100000000 && off <= 100000000)
	vAssume(off <= -10 || off >= 10)
	secs := base + off
	vAssume(secs >= 1)
	fb := time.Duration(vIteInt(vBool("has_fallback"), int(time.Hour), 0))
	policy := classad.New()
	_ = policy.Set("SessionExpires", strconv.FormatInt(secs, 10))
	exp := claimExpiration(policy, fb)
	vAssert(!exp.IsZero() && exp.Unix() == secs, "embedded-expiry-used-verbatim-whatever-the-clock-reads")
	if off < 0 {
		vCover("already-past")
	} else {
		vCover("still-ahead")
	}
	none := classad.New()
	if vBool("zero_text") {
		_ = none.Set("SessionExpires", "0")
	}
	e2 := claimExpiration(none, fb)
	if fb == 0 {
		vAssert(e2.IsZero(), "no-expiry-without-embedded-or-fallback-lifetime")
	} else {
		vAssert(!e2.IsZero(), "fallback-lifetime-applies-without-embedded-expiry")
	}
}

// VH_C16_LifetimeAgreement: a claim minted *with a lifetime* (the absolute expiry,
// now + lifetime, travels in the claim text) and imported: both ends hold the same
// expiry, and they still do after each end has taken part in a resumption (which
// renews the session's lease): a claim session's expiry is the one embedded in the
// identifier, on both ends, for as long as it lives.
//
//verif:unwind 16
func VH_C16_LifetimeAgreement() {
	// the minter renders now + lifetime into the claim text and the importer parses
	// it back: with a symbolic clock that is a symbolic decimal inside a text that
	// is split and scanned (no result in 15 minutes); the clock is frozen instead.
	// The comparison between the two ends is what is decided, for this instant.
	vClockFrozen(1790000000)
	secret := "5ec2e7c0ffee5ec2e7c0ffee5ec2e7c0ffee5ec2e7c0ffee5ec2e7c0ffee5ec2"
	VerifHook_randomHexKey = func(n int) (string, error) { return secret, nil }
	VerifHook_deriveSessionKey = func(sk string, n int) ([]byte, error) { return []byte("0123456789abcdef0123456789abcdef"), nil }
	defer func() {
		VerifHook_randomHexKey = nil
		VerifHook_deriveSessionKey = nil
	}()
	peer := "<192.0.2.9:9618>"
	life := []time.Duration{time.Hour, 10 * time.Minute}[vChoice("lifetime", 2)]
	opts := MintClaimOptions{Sinful: "<10.0.0.1:9618>", Birthdate: 1700000000, SequenceNum: 3, PeerAddr: peer, ValidCommands: []int{60007}, Lifetime: life}
	mc, ic := NewSessionCache(), NewSessionCache()
	minted, err := MintClaimSession(mc, opts)
	vAssert(err == nil, "mint-succeeds")
	if err != nil {
		return
	}
	sid, ierr := ImportClaimSession(ic, minted.ClaimID(), ClaimSessionOptions{PeerAddr: peer})
	vAssert(ierr == nil && sid == minted.SessionID(), "import-accepts-minted-claim")
	if ierr != nil {
		return
	}
	me, mok := mc.Lookup(sid)
	ie, iok := ic.Lookup(sid)
	vAssert(mok && iok, "both-sides-hold-the-session")
	if !mok || !iok {
		return
	}
	vAssert(!me.Expiration().IsZero() && me.Expiration().Equal(ie.Expiration()), "same-expiry")
	// a little later each end takes part in a resumption: the lease is renewed
	vClockFrozen(1790000100)
	me.RenewLease()
	ie.RenewLease()
	vAssert(me.Expiration().Equal(ie.Expiration()), "same-expiry-after-both-ends-resumed-the-session")
	vCover("lifetime-agreed")
}

// VH_C16_KeyDerivation: the real deriveSessionKey (HKDF over the claim secret; the
// engine computes the real HKDF-SHA256 for concrete inputs) depends on the whole
// secret: secrets that differ in their first character, in their last character,
// or only beyond the 32nd give different 32-byte keys, and the same secret gives
// the same key. Together with VH_C16_MintImport (which stubs this function by the
// full secret text) this is "an importer holding a different secret cannot".
func VH_C16_KeyDerivation() {
	VerifHook_deriveSessionKey = nil
	base := "5ec2e7c0ffee5ec2e7c0ffee5ec2e7c0ffee5ec2e7c0ffee5ec2e7c0ffee5ec2"
	variants := []string{
		"6ec2e7c0ffee5ec2e7c0ffee5ec2e7c0ffee5ec2e7c0ffee5ec2e7c0ffee5ec2",
		"5ec2e7c0ffee5ec2e7c0ffee5ec2e7c0ffee5ec2e7c0ffee5ec2e7c0ffee5ec3",
		"5ec2e7c0ffee5ec2e7c0ffee5ec2e7c00000000000000000000000000000000a",
		"5ec2e7c0ffee5ec2e7c0ffee5ec2e7c0",
	}
	k0, err := deriveSessionKey(base, 32)
	vAssert(err == nil && len(k0) == 32, "key-derived")
	again, _ := deriveSessionKey(base, 32)
	vAssert(string(again) == string(k0), "same-secret-same-key")
	which := vChoice("other_secret", len(variants))
	k1, err1 := deriveSessionKey(variants[which], 32)
	vAssert(err1 == nil && len(k1) == 32, "key-derived")
	vAssert(string(k1) != string(k0), "a-different-secret-gives-a-different-key")
	vCover("keys-compared")
}

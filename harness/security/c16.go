package security

import (
	"github.com/PelicanPlatform/classad/classad"
)

func init() {
	vRegister("VH_C16_Parse", VH_C16_Parse)
	vRegister("VH_C16_Policy", VH_C16_Policy)
}

// VH_C16_Parse: for any session id (may itself contain '#', brackets and sinful
// brackets), any bracketed info without '#', and any key without '#' and ']',
// ParseClaimIDStrict(sid + "#" + info + key) returns exactly the three parts,
// and the public form is the session id followed by "#..." (nothing of the key).
func VH_C16_Parse() {
	sid := vString("sid", 5)
	inner := vString("info", 4)
	key := vString("key", 5)
	vAssume(vNoneOf(inner, "#"))
	vAssume(vNoneOf(key, "#]"))
	info := "[" + inner + "]"
	c := ParseClaimIDStrict(sid + "#" + info + key)
	vAssertStrEqual(c.sessionID, sid, "session-id-recovered")
	vAssertStrEqual(c.sessionInfo, info, "session-info-recovered")
	vAssertStrEqual(c.sessionKey, key, "session-key-recovered")
	pub := c.PublicClaimID()
	if len(sid) > 0 {
		vAssertStrEqual(pub, sid+"#...", "public-form-is-id-and-ellipsis")
	} else {
		vAssert(pub == "", "no-public-form-without-id")
	}
	vAssert(c.SecSessionID() == sid, "sec-session-id")
	vCover("claim-id-parsed")
}

var vhYesNo = []string{"YES", "NO", "REQUIRED", ""}
var vhCmdTexts = []string{"", "60007", "60007,421", "5,60007"}
var vhCryptoTexts = []string{"", "AES", "AES,BLOWFISH", "AES, BLOWFISH", "AESGCM"}
var vhExpiries = []int64{0, 7, 1700000000, 3999999999}
var vhVersionTexts = []string{"", "25.4.0", "$CondorVersion: 25.4.0 2025-10-31 BuildID: 847437 $", "9.0.17"}

// VH_C16_Policy: ImportSecSessionInfo(ExportSecSessionInfo(p)) preserves
// Encryption, Integrity, ValidCommands, CryptoMethods (as a comma list),
// SessionExpires and maps RemoteVersion to its short form.
//
//verif:unwind 12
func VH_C16_Policy() {
	p := classad.New()
	// the text positions inside the exported string depend on every value's
	// length, so the values are case-split (concrete per path) rather than merged
	enc := vhYesNo[vChoice("enc", len(vhYesNo))]
	integ := vhYesNo[vChoice("integ", len(vhYesNo))]
	cmds := vhCmdTexts[vChoice("cmds", len(vhCmdTexts))]
	cm := vhCryptoTexts[vChoice("crypto", len(vhCryptoTexts))]
	rv := vhVersionTexts[vChoice("version", len(vhVersionTexts))]
	exp := vhExpiries[vChoice("expires", len(vhExpiries))]
	_ = p.Set("Encryption", enc)
	_ = p.Set("Integrity", integ)
	_ = p.Set("ValidCommands", cmds)
	_ = p.Set("CryptoMethods", cm)
	_ = p.Set("RemoteVersion", rv)
	_ = p.Set("SessionExpires", exp)
	info, err := ExportSecSessionInfo(p)
	vAssert(err == nil, "export-succeeds")
	if err != nil {
		return
	}
	vAssert(len(info) >= 2 && info[0] == '[' && info[len(info)-1] == ']', "info-is-bracketed")
	q, ierr := ImportSecSessionInfo(info)
	vAssert(ierr == nil, "import-accepts-exported-info")
	if ierr != nil {
		return
	}
	same := func(attr, want string) bool {
		got, ok := q.EvaluateAttrString(attr)
		return vOr(vAnd(want == "", !ok), vAnd(ok, got == want))
	}
	vAssert(same("Encryption", enc), "encryption-preserved")
	vAssert(same("Integrity", integ), "integrity-preserved")
	vAssert(same("ValidCommands", cmds), "valid-commands-preserved")
	vAssert(same("CryptoMethods", cm), "crypto-methods-preserved")
	short := vIteStr(rv == "$CondorVersion: 25.4.0 2025-10-31 BuildID: 847437 $", "25.4.0", rv)
	vAssert(same("RemoteVersion", short), "version-mapped-to-short-form")
	// SessionExpires travels as text
	got, ok := q.EvaluateAttrString("SessionExpires")
	if exp == 0 {
		vAssert(!ok, "zero-expiry-omitted")
	} else {
		vAssert(ok, "expiry-present")
		n, perr := parseInt64(got)
		vAssert(perr && n == exp, "expiry-preserved")
	}
	vCover("policy-roundtrip")
}

// parseInt64 is a tiny decimal parser for the harness (keeps the oracle
// independent of strconv).
func parseInt64(s string) (int64, bool) {
	if len(s) == 0 || len(s) > 18 {
		return 0, false
	}
	var n int64
	for i := 0; i < len(s); i++ {
		if s[i] < '0' || s[i] > '9' {
			return 0, false
		}
		n = n*10 + int64(s[i]-'0')
	}
	return n, true
}

package security

import (
	"time"

	"github.com/PelicanPlatform/classad/classad"
	"github.com/bbockelm/cedar/commands"
	"github.com/bbockelm/cedar/stream"
)

func init() {
	vRegister("VH_C06_ServerResume", VH_C06_ServerResume)
	vRegister("VH_C06_ClientResume", VH_C06_ClientResume)
	vRegister("VH_C06_Lifecycle", VH_C06_Lifecycle)
	vRegister("VH_C06_StoreResume", VH_C06_StoreResume)
}

// cipher names a cached key may be filed under: the two names of AES-GCM, none
// (a method that yields a secret without a negotiated cipher) and a legacy cipher
var vhKeyProtocols = []string{"AES", "AESGCM", "", "3DES"}

type vhSess struct {
	id      string
	hasKey  bool
	proto   string // cipher name recorded with the key
	usable  bool   // has a key cedar can actually apply (AES-GCM)
	key     []byte
	authed  bool
	user    string
	expired bool // expired before the harness read the clock
	never   bool // no expiration
	global  bool // established in the global cache rather than the server's own
	entry   *SessionEntry
}

// vhMakeSession builds a cache entry with symbolic id, key presence, identity,
// authentication status and expiry (either at least a second in the past or at
// least an hour in the future, or none).
func vhMakeSession(tag string, base time.Time, maxID int) *vhSess {
	s := &vhSess{}
	s.id = vString(tag+"_id", maxID)
	vAssume(len(s.id) > 0)
	s.hasKey = vBool(tag + "_hasKey")
	var ki *KeyInfo
	if s.hasKey {
		s.key = vBlob(tag+"_key", 32)
		s.proto = vPick(tag+"_proto", vhKeyProtocols)
		s.usable = vOr(s.proto == "AES", s.proto == "AESGCM")
		ki = &KeyInfo{Data: s.key, Protocol: s.proto}
	}
	s.authed = vBool(tag + "_authed")
	s.user = vIteStr(vBool(tag+"_hasUser"), "alice@pool", "")
	policy := classad.New()
	_ = policy.Set("Authenticated", s.authed)
	_ = policy.Set("AuthMethods", "FS")
	_ = policy.Set("CryptoMethods", "AES")
	if s.user != "" {
		_ = policy.Set("User", s.user)
	}
	_ = policy.Set("ValidCommands", "60007")
	var exp time.Time
	switch vChoice(tag+"_exp", 3) {
	case 0:
		s.never = true
	case 1:
		s.expired = true
		off := vInt64(tag + "_expOff")
		vAssume(off >= int64(time.Second) && off <= int64(240*time.Hour))
		exp = base.Add(-time.Duration(off))
	case 2:
		off := vInt64(tag + "_expOff")
		vAssume(off >= int64(time.Hour) && off <= int64(240*time.Hour))
		exp = base.Add(time.Duration(off))
	}
	lease := time.Duration(vIteInt(vBool(tag+"_hasLease"), int(30*time.Minute), 0))
	s.entry = NewSessionEntry(s.id, "<198.51.100.7:40000>", ki, policy, exp, lease, "")
	return s
}

// VH_C06_ServerResume: handleSessionResumption against a cache holding one or
// two arbitrary sessions (plus possibly one in the global cache) and an
// arbitrary request: it succeeds only for an existing, unexpired session that
// carries a key, installs exactly that key, reports that session's identity and
// authentication status; a refused request that asked for a reply is told
// SID_NOT_FOUND and nothing is keyed.
//
//verif:unwind 6
func VH_C06_ServerResume() {
	st := stream.NewStream(&vhConn{})
	st.SetPeerAddr("<198.51.100.7:40000>")
	io_ := &vhIO{st: st}
	defer vhInstall(io_)()
	vhStubCrypto("")
	vClockWindow(int64(time.Minute))
	base := time.Now()
	cache := NewSessionCache()
	s0 := vhMakeSession("s0", base, 4)
	cache.Store(s0.entry)
	sess := []*vhSess{s0}
	if vBool("two") {
		s1 := vhMakeSession("s1", base, 4)
		vAssume(s1.id != s0.id)
		if vBool("s1_global") {
			s1.global = true
			GetSessionCache().Store(s1.entry)
		} else {
			cache.Store(s1.entry)
		}
		sess = append(sess, s1)
	}
	cfg := &SecurityConfig{Authentication: SecurityRequired, Encryption: SecurityLevel(vIteStr(vBool("srv_enc_required"), "REQUIRED", "OPTIONAL")), SessionCache: cache}
	a := &Authenticator{config: cfg, stream: st}
	req := vPeerAd("req", 4)
	req.Delete("Command")
	sid := vString("sid", 4)
	neg, err := a.handleSessionResumption(vhCtx, sid, req, commands.DC_AUTHENTICATE)
	want, okw := req.EvaluateAttrBool("ResumeResponse")
	wantReply := vAnd(okw, want)
	if err != nil {
		vCover("resumption-refused")
		vAssert(!st.IsEncrypted(), "refused-request-keys-nothing")
		if wantReply {
			told := len(io_.sent) == 1 && len(io_.sent[0]) == 1 && io_.sent[0][0].kind == vkAd
			vAssert(told, "refused-requester-is-told")
			if told {
				rc, ok := io_.sent[0][0].ad.EvaluateAttrString("ReturnCode")
				vAssert(ok && rc == "SID_NOT_FOUND", "refusal-says-sid-not-found")
			}
		}
		return
	}
	vCover("resumption-accepted")
	var m *vhSess
	for _, s := range sess {
		if s.id == sid {
			m = s
		}
	}
	vAssert(m != nil, "resumed-session-exists")
	if m == nil {
		return
	}
	vTag("hasKey", vhB2I(m.hasKey))
	vAssert(!m.expired, "expired-session-not-resumed")
	vAssert(m.hasKey, "keyless-session-not-resumed")
	vAssert(m.usable, "session-whose-key-cannot-be-applied-not-resumed")
	vAssert(st.IsEncrypted(), "resumed-connection-is-keyed")
	if m.hasKey {
		vAssertBytesEqual(neg.GetSharedSecret(), m.key, "installed-key-is-the-session-key")
	}
	vAssert(neg.Encryption == st.IsEncrypted(), "reported-encryption-equals-stream-state")
	vAssert(neg.Authentication == m.authed, "authentication-status-is-the-sessions")
	vAssert(neg.User == m.user, "identity-is-the-sessions")
	vAssert(neg.SessionId == sid, "session-id-reported")
	// What the server says in the clear before the key goes on is all that can
	// make this connection's transcript differ from an earlier connection of the
	// same session (the request is the requester's to repeat). A reply that is the
	// fixed function {ReturnCode, Sid} of the session -- or no reply -- lets the
	// recorded bytes of an earlier resumed connection authenticate on this one
	// (stream-side half: VH_C06_ReplayedConnection).
	if wantReply {
		fixed := len(io_.sent) == 1 && len(io_.sent[0]) == 1 && io_.sent[0][0].kind == vkAd
		if fixed {
			ad := io_.sent[0][0].ad
			rc, _ := ad.EvaluateAttrString("ReturnCode")
			rs, _ := ad.EvaluateAttrString("Sid")
			fixed = ad.Size() == 2 && rc == "AUTHORIZED" && rs == sid
		}
		vAssert(!fixed, "resumption-reply-differs-between-connections-of-one-session")
	}
	// the resumed session stays invalidatable: dropping it from the cache it was
	// established in leaves nothing for the next resumption's lookups to find
	if m.global {
		vCover("resumed-from-global-cache")
		vAssert(InvalidateSession(sid), "invalidate-reports-presence")
	} else {
		vAssert(cache.Invalidate(sid), "invalidate-reports-presence")
	}
	_, l1 := cache.LookupNonExpired(sid)
	_, l2 := GetSessionCache().LookupNonExpired(sid)
	vAssert(!l1 && !l2, "invalidated-after-resumption-unreachable-by-the-resumption-lookups")
}

// VH_C06_ClientResume: resumeSession with an arbitrary cached entry and an
// arbitrary server reply: on success exactly the cached key is installed and
// the cached identity reported; when the server says the session is unknown or
// the exchange breaks, the cached session is dropped.
//
//verif:unwind 6
func VH_C06_ClientResume() {
	st := stream.NewStream(&vhConn{})
	io_ := &vhIO{st: st}
	defer vhInstall(io_)()
	vhStubCrypto("")
	vClockWindow(int64(time.Minute))
	base := time.Now()
	cache := NewSessionCache()
	s0 := vhMakeSession("s0", base, 4)
	vAssume(!s0.expired)
	cache.Store(s0.entry)
	cache.MapCommand("", "<192.0.2.1:9618>", "60007", s0.id)
	cfg := &SecurityConfig{Authentication: SecurityOptional, Encryption: vhLevel("cEnc"), Integrity: vhLevel("cInt"), SessionCache: cache, Command: 60007, PeerName: "<192.0.2.1:9618>"}
	a := &Authenticator{config: cfg, stream: st}
	resp := vPeerAd("resp", 13)
	io_.peer = func(k int) []vhItem {
		if k > 0 || vBool("eof0") {
			return nil
		}
		return []vhItem{{kind: vkAd, ad: resp}}
	}
	neg, err := a.resumeSession(vhCtx, s0.entry, cache)
	rc, hasRC := resp.EvaluateAttrString("ReturnCode")
	if err != nil {
		vCover("resumption-failed")
		_, still := cache.Lookup(s0.id)
		_, byCmd := cache.LookupByCommand("", "<192.0.2.1:9618>", "60007")
		unknown := hasRC && rc == "SID_NOT_FOUND"
		broke := len(io_.sent) == 0 || io_.nIn == 0 || io_.cur == nil
		if unknown || broke {
			vAssert(!still, "failed-resumption-drops-session")
			vAssert(!byCmd, "failed-resumption-drops-command-mappings")
		}
		vAssert(IsSessionResumptionError(err) || st.IsEncrypted(), "failure-is-reported-as-resumption-error")
		return
	}
	vCover("resumption-succeeded")
	vAssert(!hasRC || rc == "AUTHORIZED", "only-authorized-reply-resumes")
	vAssert(neg.SessionId == s0.id, "session-id")
	vAssert(neg.User == s0.user, "cached-identity-reported")
	vAssert(neg.Encryption == st.IsEncrypted(), "reported-encryption-equals-stream-state")
	vAssert(vImplies(st.IsEncrypted(), s0.usable), "keyed-only-with-a-usable-key")
	vAssert(st.IsEncrypted(), "a-session-is-resumed-only-onto-a-keyed-stream")
	vAssert(vImplies(vOr(cfg.Encryption == SecurityRequired, cfg.Integrity == SecurityRequired), st.IsEncrypted()), "required-encryption-resumed-stream-is-keyed")
	if s0.usable {
		vAssertBytesEqual(neg.GetSharedSecret(), s0.key, "installed-key-is-the-cached-key")
	}
	// the request names the session and the command
	if len(io_.sent) == 1 && len(io_.sent[0]) == 2 && io_.sent[0][1].kind == vkAd {
		ad := io_.sent[0][1].ad
		sidv, _ := ad.EvaluateAttrString("Sid")
		us, _ := ad.EvaluateAttrString("UseSession")
		vAssert(sidv == s0.id && us == "YES", "request-names-the-session")
	} else {
		vAssert(false, "request-shape")
	}
}

// VH_C06_Lifecycle: two arbitrary sessions with command mappings, one cache
// operation chosen arbitrarily (invalidate, expire sweep, renew, re-store),
// then every lookup: a session that was expired before the clock was read, or
// was invalidated, is returned by no lookup and by no command mapping; renewal
// never revives an expired session.
//
//verif:unwind 8
func VH_C06_Lifecycle() {
	vClockWindow(int64(time.Minute))
	base := time.Now()
	cache := NewSessionCache()
	s0 := vhMakeSession("s0", base, 3)
	s1 := vhMakeSession("s1", base, 3)
	vAssume(s0.id != s1.id)
	cache.Store(s0.entry)
	cache.Store(s1.entry)
	cache.MapCommand("", "<a:1>", "7", s0.id)
	cache.MapCommand("t", "<a:1>", "8", s1.id)
	invalidated0 := false
	switch vChoice("op", 5) {
	case 0:
		vAssert(cache.Invalidate(s0.id), "invalidate-reports-presence")
		invalidated0 = true
	case 1:
		n := cache.InvalidateExpired()
		vAssert(n == vhB2I(s0.expired)+vhB2I(s1.expired), "sweep-counts-expired-sessions")
	case 2:
		// renewal as the resumption code does it: only after a successful lookup
		if e, ok := cache.LookupNonExpired(s0.id); ok {
			before := time.Now()
			e.RenewLease()
			after := time.Now()
			if e.Lease() != 0 {
				vCover("lease-renewed")
				exp := e.Expiration()
				vAssert(!exp.Before(before.Add(e.Lease())) && !exp.After(after.Add(e.Lease())), "renewal-restarts-the-lease-from-the-moment-of-use")
			}
		}
	case 3:
		cache.Store(s0.entry)
	case 4:
	}
	dead0 := s0.expired || invalidated0
	_, a0 := cache.Lookup(s0.id)
	_, b0 := cache.LookupNonExpired(s0.id)
	_, c0 := cache.LookupByCommand("", "<a:1>", "7")
	if dead0 {
		vCover("dead-session")
		vAssert(!a0 && !b0 && !c0, "dead-session-unreachable-by-every-route")
	} else {
		vCover("live-session")
		vAssert(a0 && b0 && c0, "live-session-reachable")
	}
	_, a1 := cache.Lookup(s1.id)
	_, c1 := cache.LookupByCommand("t", "<a:1>", "8")
	vAssert(a1 == !s1.expired && c1 == !s1.expired, "other-session-unaffected")
	_, wrongTag := cache.LookupByCommand("", "<a:1>", "8")
	vAssert(!wrongTag, "mapping-is-per-tag")
}

// vhStoreResume: the server files a session at the end of a handshake with the
// real storeSession, for an arbitrary negotiation outcome (authenticated or not,
// whatever method negotiateSecurity had pencilled in, any identity, key or no
// key); a later connection resumes it through the real handleSessionResumption.
// The resumed connection reports exactly the authentication status, identity and
// key the original handshake ended with; a session that ended without a key is
// not resumable.
func vhStoreResume() {
	vClockWindow(int64(time.Minute))
	GetSessionCache().Clear()
	st := stream.NewStream(&vhConn{})
	st.SetPeerAddr("<198.51.100.7:40000>")
	io_ := &vhIO{st: st}
	defer vhInstall(io_)()
	vhStubCrypto("")
	cfg := &SecurityConfig{Authentication: vhLevel("sAuth"), Encryption: vhLevel("sEnc"), Integrity: SecurityOptional}
	a := &Authenticator{config: cfg, stream: st}
	neg := &SecurityNegotiation{
		ServerConfig:     cfg,
		ClientConfig:     &SecurityConfig{},
		Authentication:   vBool("authenticated"),
		Encryption:       vBool("encrypted"),
		NegotiatedAuth:   AuthMethod(vPick("method", vhMethodNames)),
		NegotiatedCrypto: CryptoAES,
		User:             vIteStr(vBool("has_user"), "alice@pool", ""),
		ValidCommands:    "60007",
	}
	hasKey := vBool("has_key")
	key := vBlob("key", 32)
	if hasKey {
		neg.setSharedSecret(key)
	}
	a.storeSession(neg, "host:1:2:3", 3600, 0)

	st2 := stream.NewStream(&vhConn{})
	st2.SetPeerAddr("<198.51.100.7:40001>")
	io_.st = st2
	a2 := &Authenticator{config: &SecurityConfig{Authentication: cfg.Authentication, Encryption: cfg.Encryption, Integrity: SecurityOptional}, stream: st2}
	req := classad.New()
	_ = req.Set("ResumeResponse", vBool("want_reply"))
	neg2, err := a2.handleSessionResumption(vhCtx, "host:1:2:3", req, commands.DC_AUTHENTICATE)
	if !hasKey {
		vCover("keyless-session")
		vAssert(err != nil, "keyless-session-not-resumed")
		return
	}
	vAssert(err == nil, "stored-session-resumable")
	if err != nil {
		return
	}
	vCover("stored-session-resumed")
	vAssert(neg2.Authentication == neg.Authentication, "resumed-authentication-status-is-what-the-handshake-established")
	vAssert(neg2.User == neg.User, "resumed-identity-is-what-the-handshake-established")
	vAssertBytesEqual(neg2.GetSharedSecret(), key, "resumed-key-is-the-sessions")
	vAssert(st2.IsEncrypted(), "resumed-connection-is-keyed")
}

// VH_C06_StoreResume: see vhStoreResume.
//
//verif:unwind 6
func VH_C06_StoreResume() { vhStoreResume() }

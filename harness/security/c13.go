package security

import (
	"github.com/bbockelm/cedar/stream"
)

func init() {
	vRegister("VH_C13_ExchangeKey", VH_C13_ExchangeKey)
	vRegister("VH_C13_TLSReceive", VH_C13_TLSReceive)
	vRegister("VH_C13_ClaimParsers", VH_C13_ClaimParsers)
}

// vhIntPeer answers every read with the next of a fixed list of arbitrary
// integers and then up to two arbitrary bytes, all in one message.
func vhIntPeer(names []string) (func(k int) []vhItem, *int) {
	delivered := 0
	return func(k int) []vhItem {
		if k > 0 {
			return nil
		}
		var items []vhItem
		for _, n := range names {
			items = append(items, vhItem{kind: vkInt, i: vInt(n)})
			delivered += 8
		}
		items = append(items, vhItem{kind: vkChar, i: int(vByte("c0"))}, vhItem{kind: vkChar, i: int(vByte("c1"))})
		delivered += 2
		return items
	}, &delivered
}

// VH_C13_ExchangeKey: the client side of the post-authentication key exchange
// against a server that sends arbitrary integers (hasKey, key length, protocol,
// duration, wrapped-key length) and at most two bytes: no panic, and no buffer
// sized by the peer beyond what it actually delivered (+64).
//
//verif:unwind 8
func VH_C13_ExchangeKey() {
	st := stream.NewStream(&vhConn{})
	io_ := &vhIO{st: st}
	defer vhInstall(io_)()
	peer, _ := vhIntPeer([]string{"hasKey", "keyLen", "proto", "dur", "inputLen"})
	io_.peer = peer
	vAllocLimit(5*8 + 2 + 64 + 1<<20)
	a := &Authenticator{config: &SecurityConfig{}, stream: st}
	neg := &SecurityNegotiation{IsClient: true}
	vTag("inputLen_max", 1<<20)
	err := a.exchangeKey(vhCtx, neg)
	if err != nil {
		vCover("key-exchange-error")
	} else {
		vCover("key-exchange-ok")
	}
}

// VH_C13_TLSReceive: the TLS-record transport of SSL authentication reading a
// record header (status, length) and at most two bytes from an arbitrary peer.
//
//verif:unwind 8
func VH_C13_TLSReceive() {
	st := stream.NewStream(&vhConn{})
	io_ := &vhIO{st: st}
	defer vhInstall(io_)()
	peer, _ := vhIntPeer([]string{"status", "length"})
	io_.peer = peer
	vAllocLimit(2*8 + 2 + 64 + 1<<20)
	a := &Authenticator{config: &SecurityConfig{}, stream: st}
	c := &CEDARTLSConnection{ctx: vhCtx, authenticator: a, isClient: vBool("isClient")}
	data, err := c.receiveMessage(vhCtx)
	if err != nil {
		vCover("record-error")
		return
	}
	vCover("record-ok")
	vAssert(len(data) <= 2, "record-no-longer-than-delivered")
}

// VH_C13_ClaimParsers: the claim-id and session-info text parsers over arbitrary
// strings: no panic, results are substrings of the input.
//
//verif:unwind 16
func VH_C13_ClaimParsers() {
	s := vString("text", 7)
	vAssume(vASCIIStr(s))
	switch vChoice("parser", 4) {
	case 0:
		c := ParseClaimIDStrict(s)
		vAssert(len(c.sessionID)+len(c.sessionInfo)+len(c.sessionKey) <= len(s), "parts-fit-in-input")
	case 1:
		c := ParseClaimID(s)
		vAssert(len(c.sessionID)+len(c.sessionInfo)+len(c.sessionKey) <= len(s), "parts-fit-in-input")
		_ = c.PublicClaimID()
		_ = c.SecSessionID()
	case 2:
		_, _ = ImportSessionInfoAttributes(s)
	case 3:
		_, _ = ImportSecSessionInfo(s)
	}
	vCover("parsed")
}

package security

import (
	"github.com/bbockelm/cedar/commands"
	"github.com/bbockelm/cedar/stream"
)

func init() {
	vRegister("VH_C10_TableAuth", VH_C10_TableAuth)
	vRegister("VH_C10_TableEnc", VH_C10_TableEnc)
}

func vhImplementedRef(m AuthMethod) bool {
	// the methods cedar can actually perform (PASSWORD is a stub that always fails)
	return vOr(vOr(vOr(m == AuthFS, m == AuthToken), vOr(m == AuthSSL, m == AuthClaimToBe)), vOr(vOr(m == AuthKerberos, m == AuthSciTokens), m == AuthIDTokens))
}

// VH_C10_Table: the real negotiateSecurity (as the server runs it on two honest
// configurations) against an independently written decision table: failure
// exactly when one side requires what the other forbids or a feature that will
// run has no mutually usable method; authentication exactly when either side
// requires it, or either prefers it, neither forbids it and a usable common
// method exists; encryption on whenever either side requires it; method and
// cipher are the first of the server's list that the client also lists and that
// cedar can perform.
//
// The authentication half and the encryption half of the function are
// independent computations; each is explored with the other half held at
// OPTIONAL/OPTIONAL with one common method.
//
//verif:unwind 6
func VH_C10_TableAuth() { vhTable(true) }

// VH_C10_TableEnc: the encryption half (see VH_C10_TableAuth).
//
//verif:unwind 6
func VH_C10_TableEnc() { vhTable(false) }

func vhTable(authHalf bool) {
	st := stream.NewStream(&vhConn{})
	cA, sA := SecurityOptional, SecurityOptional
	cE, sE := SecurityOptional, SecurityOptional
	cM, sM := []AuthMethod{AuthFS}, []AuthMethod{AuthFS}
	cC, sC := []CryptoMethod{CryptoAES}, []CryptoMethod{CryptoAES}
	if authHalf {
		cA, sA = vhLevel("cAuth"), vhLevel("sAuth")
		cM, sM = vhMethods("cM", true), vhMethods("sM", true)
	} else {
		cE, sE = vhLevel("cEnc"), vhLevel("sEnc")
		cC, sC = vhCryptoList("cC"), vhCryptoList("sC")
	}
	cli := &SecurityConfig{Authentication: cA, Encryption: cE, Integrity: SecurityOptional, AuthMethods: cM, CryptoMethods: cC}
	srv := &SecurityConfig{Authentication: sA, Encryption: sE, Integrity: SecurityOptional, AuthMethods: sM, CryptoMethods: sC}
	a := &Authenticator{config: srv, stream: st}
	neg := &SecurityNegotiation{Command: commands.DC_AUTHENTICATE, ClientConfig: cli, ServerConfig: srv}
	err := a.negotiateSecurity(neg)

	// ---- reference table -------------------------------------------------------
	// first method of the server's list that the client lists and cedar implements
	var m AuthMethod
	for i := len(srv.AuthMethods) - 1; i >= 0; i-- {
		s := srv.AuthMethods[i]
		m = AuthMethod(vIteStr(vAnd(vhListed(cli.AuthMethods, s), vhImplementedRef(s)), string(s), string(m)))
	}
	var c CryptoMethod
	for i := len(srv.CryptoMethods) - 1; i >= 0; i-- {
		s := srv.CryptoMethods[i]
		in := false
		for _, x := range cli.CryptoMethods {
			in = vOr(in, x == s)
		}
		// only a cipher cedar can key a fresh session with counts (AES)
		c = CryptoMethod(vIteStr(vAnd(in, s == CryptoAES), string(s), string(c)))
	}
	req, pref, never := SecurityRequired, SecurityPreferred, SecurityNever
	authIncompat := vOr(vAnd(cA == req, sA == never), vAnd(cA == never, sA == req))
	auth := vAnd(!authIncompat, vOr(vOr(cA == req, sA == req),
		vAnd(vAnd(vOr(cA == pref, sA == pref), vAnd(cA != never, sA != never)), m != "")))
	encIncompat := vOr(vAnd(cE == req, sE == never), vAnd(cE == never, sE == req))
	encReq := vOr(cE == req, sE == req)
	// encryption may also be on when merely preferred and a cipher is common
	encPref := vAnd(vAnd(vOr(cE == pref, sE == pref), vAnd(cE != never, sE != never)), c != "")
	encWill := vAnd(!encIncompat, vOr(encReq, encPref))
	fail := vOr(vOr(authIncompat, encIncompat), vOr(vAnd(auth, m == ""), vAnd(encWill, c == "")))

	vTag("fail_ref", vhB2I(fail))
	vTag("auth_ref", vhB2I(auth))
	if err != nil {
		vCover("negotiation-fails")
		vAssert(fail, "fails-only-when-table-says-so")
		return
	}
	vCover("negotiation-succeeds")
	vAssert(!fail, "succeeds-only-when-table-says-so")
	vAssert(neg.Authentication == auth, "authentication-decision-matches-table")
	vAssert(vImplies(auth, neg.NegotiatedAuth == m), "method-is-first-usable-common-in-server-order")
	vAssert(vImplies(encReq, neg.Encryption), "encryption-on-when-either-side-requires-it")
	vAssert(vImplies(neg.Encryption, neg.NegotiatedCrypto == c), "cipher-is-first-common-in-server-order")
	vAssert(vImplies(neg.Encryption, c != ""), "encryption-only-with-a-common-cipher")
	vAssert(neg.Enact == vOr(neg.Authentication, neg.Encryption), "enact-flag")
}

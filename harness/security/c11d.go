package security

import "errors"

func init() {
	vRegister("VH_C11_VerifyStandalone", VH_C11_VerifyStandalone)
}

// headers: kid POOL, no kid, kid "k2", a numeric kid (not a name: the pool key)
var vhC11Hdr = []string{
	"eyJhbGciOiJIUzI1NiIsImtpZCI6IlBPT0wifQ",
	"eyJhbGciOiJIUzI1NiJ9",
	"eyJhbGciOiJIUzI1NiIsImtpZCI6ImsyIn0",
	"eyJhbGciOiJIUzI1NiIsImtpZCI6N30",
}
var vhC11HdrKey = []string{"POOL", "POOL", "k2", "POOL"}

// payloads (iat 1000 is older than any max age but 2^42 at every clock reading of
// the model and of the real clock; exp 2^41 is ahead of both, exp 1000 behind both):
// 0 full and valid; 1 expired; 2 no subject; 3 empty subject; 4 no expiry; 5 an
// expiry that is not a number
var vhC11Pay = []string{
	"eyJzdWIiOiJhbGljZUBwb29sIiwiaXNzIjoicG9vbCIsInNjb3BlIjoiY29uZG9yOi9SRUFEIiwiaWF0IjoxMDAwLCJleHAiOjIxOTkwMjMyNTU1NTJ9",
	"eyJzdWIiOiJhbGljZUBwb29sIiwiaWF0IjoxMDAwLCJleHAiOjEwMDB9",
	"eyJpc3MiOiJwb29sIiwiaWF0IjoxMDAwLCJleHAiOjIxOTkwMjMyNTU1NTJ9",
	"eyJzdWIiOiIiLCJpYXQiOjEwMDAsImV4cCI6MjE5OTAyMzI1NTU1Mn0",
	"eyJzdWIiOiJhbGljZUBwb29sIiwiaWF0IjoxMDAwfQ",
	"eyJzdWIiOiJhbGljZUBwb29sIiwiZXhwIjoibmV2ZXIiLCJpYXQiOjEwMDB9",
}

// presented signatures: bytes 0..31, 0..30, 0..32 (base64url, unpadded), not base64
var vhC11Sig = []string{
	"AAECAwQFBgcICQoLDA0ODxAREhMUFRYXGBkaGxwdHh8",
	"AAECAwQFBgcICQoLDA0ODxAREhMUFRYXGBkaGxwdHg",
	"AAECAwQFBgcICQoLDA0ODxAREhMUFRYXGBkaGxwdHh8g",
	"!!",
}

// VH_C11_VerifyStandalone: the real VerifyIDToken (splitting, header decoding and
// key-id selection, signature comparison, payload decoding, the real
// validateTokenTiming, claim extraction) with the key store and the signature
// recomputation as recording stubs: the recomputed signature is an arbitrary
// 32-byte value E (an ideal MAC of the named key over the signing input). A token
// is accepted exactly when the presented signature is byte-for-byte E, E was
// computed under the key the header names ("" / absent / not a string: the pool
// key) over exactly "header.payload", the time claims are valid at the current
// clock for the configured maximum age and the subject is a non-empty string; and
// the claims handed back are the token's.
//
//verif:unwind 40
func VH_C11_VerifyStandalone() {
	VerifHook_Authenticator_validateTokenAndDeriveKeys = nil
	loadedFor := ""
	loads := 0
	key := vBlob("signing_key", 16)
	keyFails := vBool("key_store_fails")
	VerifHook_Authenticator_loadSigningKey = func(a *Authenticator, keyID string, c *SecurityConfig) ([]byte, error) {
		loads++
		loadedFor = keyID
		if keyFails {
			return nil, errors.New("no such key")
		}
		return key, nil
	}
	expected := vBlob("expected_sig", 32)
	sigInput := ""
	sigKeyIsLoaded := false
	VerifHook_Authenticator_computeTokenSignature = func(a *Authenticator, k []byte, tok string) []byte {
		sigInput = tok
		sigKeyIsLoaded = len(k) == 16 && len(key) == 16 && &k[0] == &key[0]
		return expected
	}
	defer func() {
		VerifHook_Authenticator_loadSigningKey = nil
		VerifHook_Authenticator_computeTokenSignature = nil
	}()
	h := vChoice("header", len(vhC11Hdr))
	p := vChoice("payload", len(vhC11Pay))
	s := vChoice("signature", len(vhC11Sig))
	shape := vChoice("shape", 4) // 0 three parts, 1 surrounded by white space, 2 unsigned (two parts), 3 four parts
	defaultAge := vBool("default_max_age")
	maxAge := 1 << 42
	if defaultAge {
		maxAge = 0
	}
	cfg := &SecurityConfig{TokenMaxAge: maxAge}
	tok := vhC11Hdr[h] + "." + vhC11Pay[p] + "." + vhC11Sig[s]
	switch shape {
	case 1:
		tok = "  " + tok + "\n"
	case 2:
		tok = vhC11Hdr[h] + "." + vhC11Pay[p]
	case 3:
		tok = tok + "." + vhC11Sig[0]
	}
	claims, err := VerifyIDToken(tok, cfg)

	presentedIsE := true
	for i := 0; i < 32; i++ {
		presentedIsE = vAnd(presentedIsE, expected[i] == byte(i))
	}
	timeOK := !defaultAge && (p == 0 || p == 2 || p == 3 || p == 4)
	subjectOK := p == 0 || p == 1 || p == 4 || p == 5
	should := vAnd(vAnd(shape <= 1, !keyFails), vAnd(vAnd(s == 0, presentedIsE), timeOK && subjectOK))
	if err != nil {
		vCover("token-refused")
		vAssert(!should, "a-properly-signed-currently-valid-token-is-accepted")
		vAssert(claims == nil, "no-claims-from-a-refused-token")
		return
	}
	vCover("token-accepted")
	vAssert(shape <= 1, "only-a-three-part-token-is-accepted")
	vAssert(vAnd(s == 0, presentedIsE), "accepted-only-with-exactly-the-recomputed-signature")
	vAssert(loads == 1 && loadedFor == vhC11HdrKey[h], "signature-recomputed-under-the-key-the-header-names")
	vAssert(sigKeyIsLoaded, "signature-recomputed-with-the-loaded-key")
	vAssert(sigInput == vhC11Hdr[h]+"."+vhC11Pay[p], "signature-covers-exactly-header-dot-payload")
	vAssert(timeOK, "accepted-only-while-the-time-claims-are-valid")
	vAssert(subjectOK, "accepted-only-with-a-non-empty-string-subject")
	vAssert(claims != nil && claims.Subject == "alice@pool", "claims-returned-are-the-tokens")
	if p == 0 {
		vAssert(claims.Issuer == "pool" && claims.Scope == "condor:/READ" && claims.IssuedAt == 1000 && claims.Expiry == 2199023255552, "claims-returned-are-the-tokens")
	}
}

package security

import (
	"context"

	"github.com/PelicanPlatform/classad/classad"
	"github.com/bbockelm/cedar/commands"
	"github.com/bbockelm/cedar/stream"
)

func init() {
	vRegister("VH_C04_ServerFreezePoint", VH_C04_ServerFreezePoint)
	vRegister("VH_C04_ClientFreezePoint", VH_C04_ClientFreezePoint)
}

func vhC04Stubs() {
	vhStubCrypto("alice@pool")
	vhNoSessionStore()
	VerifHook_Authenticator_exchangeKey = func(a *Authenticator, ctx context.Context, n *SecurityNegotiation) error { return nil }
}

func vhC04PeerAd(prefix string, client bool) *classad.ClassAd {
	ad := classad.New()
	if client {
		_ = ad.Set("Authentication", vPick(prefix+"Auth", vhLevelNames))
		_ = ad.Set("Encryption", vPick(prefix+"Enc", vhLevelNames))
		_ = ad.Set("Command", 60007)
	} else {
		_ = ad.Set("Authentication", vPick(prefix+"Auth", []string{"YES", "NO"}))
		_ = ad.Set("Encryption", vPick(prefix+"Enc", []string{"YES", "NO"}))
	}
	_ = ad.Set("Integrity", "OPTIONAL")
	_ = ad.Set("AuthMethods", "FS")
	_ = ad.Set("CryptoMethods", "AES")
	_ = ad.Set("ECDHPublicKey", "UEVFUi1FQ0RILUtFWQ==")
	return ad
}

// VH_C04_ServerFreezePoint: the whole real ServerHandshake (negotiation,
// authentication rounds, key setup; method bodies, ECDH and HKDF stubbed, message
// layer replaced by typed queues) for every own policy against a client of every
// policy and arbitrary bitmask offers. If the connection ends up keyed, every
// message that crossed in the clear before the key went on did so while the
// handshake digests were still running: the first protected frame is bound to the
// whole cleartext phase, not to a prefix of it.
//
//verif:unwind 6
func VH_C04_ServerFreezePoint() {
	st := stream.NewStream(&vhConn{})
	st.SetPeerAddr("<198.51.100.7:40000>")
	io_ := &vhIO{st: st}
	defer vhInstall(io_)()
	vhC04Stubs()
	cfg := &SecurityConfig{Authentication: vhLevel("sAuth"), Encryption: vhLevel("sEnc"), Integrity: SecurityOptional,
		AuthMethods: []AuthMethod{AuthFS}, CryptoMethods: []CryptoMethod{CryptoAES}, ECDHPublicKey: "T1dOLUVDREgtS0VZ", SessionCache: NewSessionCache()}
	a := &Authenticator{config: cfg, stream: st}
	cli := vhC04PeerAd("c", true)
	round := 0
	io_.peer = func(k int) []vhItem {
		if k >= len(vhEOFNames) || vBool(vhEOFNames[k]) {
			return nil
		}
		if k == 0 {
			return []vhItem{{kind: vkInt, i: commands.DC_AUTHENTICATE}, {kind: vkAd, ad: cli}}
		}
		if round >= vhRounds() {
			return nil
		}
		round++
		return []vhItem{{kind: vkInt, i: vInt(vhBMNames[round-1])}}
	}
	_, err := a.ServerHandshake(vhCtx)
	if err != nil {
		vCover("handshake-fails")
	} else {
		vCover("handshake-succeeds")
	}
	if st.IsEncrypted() {
		vCover("keyed")
		vAssert(!io_.clearFrozen, "cleartext-phase-fully-hashed-before-the-key-goes-on")
	}
}

// VH_C04_ClientFreezePoint: the same for the client's performFullAuthentication
// against a server that answers with any decision and arbitrary bitmask replies.
//
//verif:unwind 6
func VH_C04_ClientFreezePoint() {
	st := stream.NewStream(&vhConn{})
	io_ := &vhIO{st: st}
	defer vhInstall(io_)()
	vhC04Stubs()
	cfg := &SecurityConfig{Authentication: vhLevel("cAuth"), Encryption: vhLevel("cEnc"), Integrity: SecurityOptional,
		AuthMethods: []AuthMethod{AuthFS}, CryptoMethods: []CryptoMethod{CryptoAES}, ECDHPublicKey: "T1dOLUVDREgtS0VZ",
		Command: 60007, PeerName: "<192.0.2.1:9618>", SessionCache: NewSessionCache()}
	a := &Authenticator{config: cfg, stream: st}
	srv := vhC04PeerAd("s", false)
	post := classad.New()
	_ = post.Set("ReturnCode", "AUTHORIZED")
	_ = post.Set("Sid", "host:1:2:3")
	round := 0
	io_.peer = func(k int) []vhItem {
		if k >= len(vhEOFNames) || vBool(vhEOFNames[k]) {
			return nil
		}
		if k == 0 {
			return []vhItem{{kind: vkAd, ad: srv}}
		}
		if vBool(vhPostNames[k]) || round >= vhRounds() {
			return []vhItem{{kind: vkAd, ad: post}}
		}
		round++
		return []vhItem{{kind: vkInt, i: vInt(vhBMNames[round-1])}}
	}
	_, err := a.performFullAuthentication(vhCtx, cfg.SessionCache)
	if err != nil {
		vCover("handshake-fails")
	} else {
		vCover("handshake-succeeds")
	}
	if st.IsEncrypted() {
		vCover("keyed")
		vAssert(!io_.clearFrozen, "cleartext-phase-fully-hashed-before-the-key-goes-on")
	}
}

var vhPostNames = [10]string{"post0", "post1", "post2", "post3", "post4", "post5", "post6", "post7", "post8", "post9"}

package security

func init() {
	vRegister("VH_C11_ServerIdentity", VH_C11_ServerIdentity)
}

// header {"alg":"HS256","kid":"POOL"}; payloads: a string subject, no subject, a
// numeric subject, an empty subject (iat 1000, exp 2^41: valid at any clock reading)
var vhC11Tokens = []string{
	"eyJhbGciOiJIUzI1NiIsImtpZCI6IlBPT0wifQ.eyJzdWIiOiJhbGljZUBwb29sIiwiaWF0IjoxMDAwLCJleHAiOjIxOTkwMjMyNTU1NTJ9",
	"eyJhbGciOiJIUzI1NiIsImtpZCI6IlBPT0wifQ.eyJpYXQiOjEwMDAsImV4cCI6MjE5OTAyMzI1NTU1Mn0",
	"eyJhbGciOiJIUzI1NiIsImtpZCI6IlBPT0wifQ.eyJzdWIiOjQyLCJpYXQiOjEwMDAsImV4cCI6MjE5OTAyMzI1NTU1Mn0",
	"eyJhbGciOiJIUzI1NiIsImtpZCI6IlBPT0wifQ.eyJzdWIiOiIiLCJpYXQiOjEwMDAsImV4cCI6MjE5OTAyMzI1NTU1Mn0",
}

// VH_C11_ServerIdentity: the real validateTokenAndDeriveKeys (real header and
// payload decoding, key-id selection, time validation and subject extraction;
// signing-key loading, signature recomputation and key derivation stubbed) on
// four token shapes and an arbitrary client-claimed identity (<= 6 bytes, possibly
// empty, possibly equal to the subject). Validation succeeds only for a token with
// a non-empty string subject, and the identity it leaves for the rest of the
// exchange (echoed, MAC'ed and finally recorded) is that subject whatever the
// client claimed.
//
//verif:unwind 8
func VH_C11_ServerIdentity() {
	// (natively the cases of one package run in one process: drop what the flow
	// harnesses may have left installed)
	VerifHook_Authenticator_validateTokenAndDeriveKeys = nil
	VerifHook_Authenticator_loadSigningKey = func(a *Authenticator, keyID string, c *SecurityConfig) ([]byte, error) {
		vAssert(keyID == "POOL", "key-named-by-the-token-header-is-loaded")
		return vBlob("signing_key", 16), nil
	}
	VerifHook_Authenticator_computeTokenSignature = func(a *Authenticator, key []byte, tok string) []byte { return vBlob("signature", 32) }
	VerifHook_Authenticator_deriveTokenKeys = func(a *Authenticator, d *TokenAuthData) error { return nil }
	defer func() {
		VerifHook_Authenticator_loadSigningKey = nil
		VerifHook_Authenticator_computeTokenSignature = nil
		VerifHook_Authenticator_deriveTokenKeys = nil
	}()
	shape := vChoice("token_shape", len(vhC11Tokens))
	claimed := vString("claimed_id", 6)
	a := &Authenticator{config: &SecurityConfig{}}
	d := &TokenAuthData{Token: vhC11Tokens[shape], ClientID: claimed}
	neg := &SecurityNegotiation{ServerConfig: &SecurityConfig{TrustDomain: "pool", TokenMaxAge: 1 << 42}, ClientConfig: &SecurityConfig{}}
	err := a.validateTokenAndDeriveKeys(d, neg)
	if err != nil {
		vCover("token-rejected")
		vAssert(shape != 0, "token-with-a-proper-subject-is-accepted")
		return
	}
	vCover("token-accepted")
	vAssert(shape == 0, "only-a-token-with-a-non-empty-string-subject-validates")
	vAssert(d.ClientID == "alice@pool", "identity-is-the-token-subject-not-the-clients-claim")
	vAssert(d.ServerID == "server@pool", "server-identity-from-the-trust-domain")
}

package security

import "github.com/bbockelm/cedar/stream"

func init() {
	vRegister("VH_C11_Nonces", VH_C11_Nonces)
}

// VH_C11_Nonces: both proofs are bound to one exchange by fresh nonces. The real
// sendClientTokenStep1 and sendServerTokenStep2 (message layer on typed queues, MAC
// computation stubbed) each draw their whole nonce (RA resp. RB, 256 bytes) from
// the random source and put exactly those bytes on the wire, so a proof recorded
// from an earlier exchange cannot answer a later one.
//
//verif:unwind 8
func VH_C11_Nonces() {
	st := stream.NewStream(&vhConn{})
	io_ := &vhIO{st: st}
	defer vhInstall(io_)()
	VerifHook_Authenticator_sendClientTokenStep1 = nil
	VerifHook_Authenticator_sendServerTokenStep2 = nil
	VerifHook_Authenticator_computeTokenMAC = func(a *Authenticator, key []byte, parts ...interface{}) []byte { return vBlob("mac", 32) }
	defer func() { VerifHook_Authenticator_computeTokenMAC = nil }()
	a := &Authenticator{config: &SecurityConfig{}, stream: st}
	neg := &SecurityNegotiation{ServerConfig: &SecurityConfig{}, ClientConfig: &SecurityConfig{}}
	d := &TokenAuthData{ClientID: "alice@pool", ServerID: "server@pool", Token: "h.p", ErrorStatus: AUTH_PW_A_OK,
		SharedKeyK: vBlob("K", 32), SharedKeyKP: vBlob("Kp", 32)}
	sentBytes := func() []byte {
		var last []byte
		for _, m := range io_.sent {
			for _, it := range m {
				if it.kind == vkBytes {
					last = it.b
				}
			}
		}
		return last
	}
	if vBool("client_side") {
		neg.IsClient = true
		if a.sendClientTokenStep1(vhCtx, d, neg) != nil {
			vAssume(false)
		}
		vCover("client-nonce")
		vAssert(len(d.RA) == AUTH_PW_KEY_LEN, "client-nonce-has-full-length")
		vAssert(vFromRNG(d.RA), "client-nonce-is-drawn-from-the-random-source")
		vAssertBytesEqual(sentBytes(), d.RA, "the-nonce-sent-is-the-nonce-kept")
	} else {
		d.RA = vBlob("RA", 8)
		if a.sendServerTokenStep2(vhCtx, d, neg) != nil {
			vAssume(false)
		}
		vCover("server-nonce")
		vAssert(len(d.RB) == AUTH_PW_KEY_LEN, "server-nonce-has-full-length")
		vAssert(vFromRNG(d.RB), "server-nonce-is-drawn-from-the-random-source")
	}
}

package security

import (
	"net"

	"github.com/bbockelm/cedar/stream"
)

func init() {
	vRegister("VH_C18_ClientEndpoint", VH_C18_ClientEndpoint)
}

type vhAddrConn struct {
	vhConn
	remote net.Addr
}

func (c *vhAddrConn) RemoteAddr() net.Addr { return c.remote }

type vhTextAddr string

func (a vhTextAddr) Network() string { return "tcp" }
func (a vhTextAddr) String() string  { return string(a) }

// VH_C18_ClientEndpoint: which endpoint an address-qualified directory name is
// held against. The real performFSAuthenticationClient runs on a connection whose
// socket is really connected to 198.51.100.7:40000 while the stream carries a
// recorded peer label (none / the same endpoint / another literal endpoint / a
// sinful string with parameters), in local and remote mode, and the server
// supplies an address-qualified name for the real endpoint, for the labelled
// endpoint, for the right address with another port, or a historical name. The
// client creates a directory (and replies 0) only for names that are unqualified
// or name the endpoint the socket is really connected to, whatever the label says.
//
//verif:unwind 16
func VH_C18_ClientEndpoint() {
	conn := &vhAddrConn{remote: vhTextAddr("198.51.100.7:40000")}
	st := stream.NewStream(conn)
	switch vChoice("label", 4) {
	case 1:
		st.SetPeerAddr("<198.51.100.7:40000>")
	case 2:
		st.SetPeerAddr("<203.0.113.9:4242>")
	case 3:
		st.SetPeerAddr("203.0.113.9:4242")
	}
	io_ := &vhIO{st: st}
	defer vhInstall(io_)()
	a := &Authenticator{config: &SecurityConfig{}, stream: st}
	neg := &SecurityNegotiation{ServerConfig: &SecurityConfig{}, ClientConfig: &SecurityConfig{}, IsClient: true}
	remote := vBool("remote")
	prefix := "/tmp/FS_"
	if remote {
		prefix = "/tmp/FS_REMOTE_"
	}
	names := []string{"198.51.100.7_40000_aB3", "203.0.113.9_4242_aB3", "198.51.100.7_4242_aB3", "203.0.113.9_40000_aB3"}
	which := vChoice("name", len(names)+1)
	p := ""
	if which < len(names) {
		p = prefix + names[which]
	} else if remote {
		p = "/tmp/FS_REMOTE_node7_4711_aB3"
	} else {
		p = "/tmp/FS_4711"
	}
	vhScrub(p)
	defer vhScrub(p)
	before := vhTmpNames()
	checked := false
	io_.peer = func(k int) []vhItem {
		switch k {
		case 0:
			return []vhItem{{kind: vkStr, s: p}}
		case 1:
			if len(io_.sent) != 1 || len(io_.sent[0]) != 1 || io_.sent[0][0].kind != vkInt {
				vAssert(false, "client-replies-with-its-result")
				return nil
			}
			res := io_.sent[0][0].i
			now := vhTmpNames()
			created := len(now) > len(before)
			vAssert(created == (res == 0), "client-reports-success-exactly-when-it-created-the-directory")
			mayCreate := which == 0 || which == len(names)
			vAssert(created == mayCreate, "address-qualified-name-is-held-against-the-sockets-real-endpoint")
			if created {
				vCover("directory-created")
			} else {
				vCover("nothing-created")
			}
			checked = true
			return []vhItem{{kind: vkInt, i: 0}}
		}
		return nil
	}
	_ = a.performFSAuthenticationClient(vhCtx, neg, remote)
	vAssert(checked, "exchange-reached-the-verdict")
	after := vhTmpNames()
	vAssert(len(after) == len(before), "base-directory-as-before-after-the-exchange")
}

package security

import (
	"context"
	"errors"
	"time"

	pkgerrors "github.com/pkg/errors"

	"github.com/bbockelm/cedar/stream"
)

func init() {
	vRegister("VH_C11_Timing", VH_C11_Timing)
	vRegister("VH_C11_ServerFlow", VH_C11_ServerFlow)
	vRegister("VH_C11_ClientFlow", VH_C11_ClientFlow)
}

// VH_C11_Timing: validateTokenTiming over an arbitrary clock, arbitrary exp / iat
// claims (absent, integer or of a wrong dynamic type) and an arbitrary maximum
// age: it accepts exactly when the token is unexpired and not too old.
//
//verif:unwind 6
func VH_C11_Timing() {
	vClockWindow(int64(time.Minute))
	claims := map[string]interface{}{}
	// claims are placed relative to the clock (so a replay against the real clock
	// sees the same relation)
	before := time.Now().Unix()
	expOff := vInt64("expOff")
	age := vInt64("age")
	vAssume(expOff > -(1<<40) && expOff < 1<<40 && age > -(1<<40) && age < 1<<40)
	// keep a few seconds away from the boundaries the real clock could cross
	vAssume(vAnd(vOr(expOff <= -5, expOff >= 5), true))
	exp := before + expOff
	iat := before - age
	expKind := vChoice("expKind", 4) // 0 absent, 1 int64, 2 int, 3 string (invalid)
	iatKind := vChoice("iatKind", 4)
	switch expKind {
	case 1:
		claims["exp"] = exp
	case 2:
		claims["exp"] = int(exp)
	case 3:
		claims["exp"] = "soon"
	}
	switch iatKind {
	case 1:
		claims["iat"] = iat
	case 2:
		claims["iat"] = int(iat)
	case 3:
		claims["iat"] = "then"
	}
	maxAge := vInt("maxAge")
	vAssume(maxAge >= 0 && maxAge < 1<<40)
	cfg := &SecurityConfig{TokenMaxAge: maxAge}
	a := &Authenticator{config: cfg}
	err := a.validateTokenTiming(claims, cfg)
	after := time.Now().Unix()
	eff := int64(maxAge)
	if maxAge == 0 {
		eff = 3600
	}
	vAssume(vOr(age <= eff-5, age >= eff+5))
	// the clock read inside lies between the two readings taken here
	if err == nil {
		vCover("token-time-valid")
		vAssert(expKind != 3 && iatKind != 3, "malformed-time-claims-rejected")
		vAssert(vImplies(expKind == 1 || expKind == 2, before < exp), "accepted-token-is-unexpired")
		vAssert(vImplies(iatKind == 1 || iatKind == 2, before-iat <= eff), "accepted-token-is-not-too-old")
	} else {
		vCover("token-time-invalid")
		stale := vOr(vAnd(expKind == 1 || expKind == 2, after >= exp), vAnd(iatKind == 1 || iatKind == 2, after-iat > eff))
		vAssert(vOr(vOr(expKind == 3, iatKind == 3), stale), "rejected-only-when-expired-too-old-or-malformed")
	}
}

const (
	vhStepOK = iota
	vhStepFail
	vhStepNet
)

func vhStepResult(name string) error {
	switch vChoice(name, 3) {
	case vhStepFail:
		return errors.New(name + " failed")
	case vhStepNet:
		return pkgerrors.Wrap(ErrNetwork, name)
	}
	return nil
}

// VH_C11_ServerFlow: the server side of token authentication with the first two
// steps replaced by stubs of arbitrary outcome (ok, failure, network error) and
// the MAC / key derivation replaced by opaque values; the real third step and
// the real deferred-failure logic run against an arbitrary client message. It
// returns success only if no step failed, the client reported success, echoed
// the identity the token validation established and the server's nonce, sent
// exactly the expected MAC and nothing more; the recorded identity is the one
// established from the token.
//
//verif:unwind 8
func VH_C11_ServerFlow() {
	st := stream.NewStream(&vhConn{})
	io_ := &vhIO{st: st}
	defer vhInstall(io_)()
	var r1, rv, r2 error
	tokenID := "alice@pool"
	VerifHook_Authenticator_receiveServerTokenStep1 = func(a *Authenticator, ctx context.Context, d *TokenAuthData, n *SecurityNegotiation) error {
		d.ClientID = vPick("claimed_id", []string{"mallory@pool", "alice@pool", ""})
		r1 = vhStepResult("step1")
		return r1
	}
	VerifHook_Authenticator_validateTokenAndDeriveKeys = func(a *Authenticator, d *TokenAuthData, n *SecurityNegotiation) error {
		rv = vhStepResult("validate")
		if rv == nil {
			d.ClientID = tokenID // identity taken from the validated token
			d.SharedKeyK = vBlob("K", 4)
		}
		return rv
	}
	rb := vBlob("RB", 4)
	VerifHook_Authenticator_sendServerTokenStep2 = func(a *Authenticator, ctx context.Context, d *TokenAuthData, n *SecurityNegotiation) error {
		d.RB = rb
		r2 = vhStepResult("step2")
		return r2
	}
	mac := vBlob("mac_expected", 4)
	VerifHook_Authenticator_computeTokenMAC = func(a *Authenticator, key []byte, parts ...interface{}) []byte { return mac }
	sess := vBlob("session_key", 32)
	VerifHook_Authenticator_deriveSessionKey = func(a *Authenticator, rb []byte) []byte { return sess }

	status := vInt("p_status")
	pid := vPick("p_id", []string{"mallory@pool", "alice@pool", ""})
	prb := vBytes("p_rb", 4)
	pmac := vBytes("p_mac", 4)
	extra := vBool("p_extra")
	io_.peer = func(k int) []vhItem {
		if k > 0 || vBool("eof0") {
			return nil
		}
		items := []vhItem{{kind: vkInt, i: status}, {kind: vkInt, i: vInt("p_idlen")}, {kind: vkStr, s: pid},
			{kind: vkInt, i: vInt("p_rblen")}, {kind: vkBytes, b: prb}, {kind: vkInt, i: vInt("p_maclen")}, {kind: vkBytes, b: pmac}}
		if extra {
			items = append(items, vhItem{kind: vkChar, i: 7})
		}
		return items
	}
	a := &Authenticator{config: &SecurityConfig{}, stream: st}
	neg := &SecurityNegotiation{IsClient: false}
	err := a.performTokenAuthenticationServer(vhCtx, AuthToken, neg)
	if err != nil {
		vCover("token-auth-fails")
		vAssert(neg.User == "" && len(neg.GetSharedSecret()) == 0, "failed-authentication-records-nothing")
		return
	}
	vCover("token-auth-succeeds")
	vAssert(r1 == nil && rv == nil && r2 == nil, "success-only-if-every-step-succeeded")
	vAssert(status == AUTH_PW_A_OK, "success-only-if-client-reported-ok")
	vAssert(pid == tokenID, "client-echoed-the-validated-identity")
	vAssertBytesEqual(prb, rb, "client-echoed-the-servers-nonce")
	vAssertBytesEqual(pmac, mac, "client-mac-is-the-expected-mac")
	vAssert(!extra, "no-trailing-data")
	vAssert(neg.User == "alice", "recorded-identity-comes-from-the-token")
	vAssertBytesEqual(neg.GetSharedSecret(), sess, "session-key-installed")
}

// VH_C11_ClientFlow: the client side with token loading, key derivation and the
// two sends stubbed and the real second step: success only if nothing failed,
// the server reported success, echoed this client's identity and nonce and sent
// exactly the MAC expected under the shared key.
//
//verif:unwind 8
func VH_C11_ClientFlow() {
	st := stream.NewStream(&vhConn{})
	io_ := &vhIO{st: st}
	defer vhInstall(io_)()
	var rl, rd, r1, r3 error
	ra := vBlob("RA", 4)
	VerifHook_Authenticator_loadTokenForAuthentication = func(a *Authenticator, m AuthMethod, d *TokenAuthData, n *SecurityNegotiation) error {
		d.ClientID = "alice@pool"
		rl = vhStepResult("load")
		return rl
	}
	VerifHook_Authenticator_deriveTokenKeys = func(a *Authenticator, d *TokenAuthData) error {
		d.SharedKeyK = vBlob("K", 4)
		rd = vhStepResult("derive")
		return rd
	}
	VerifHook_Authenticator_sendClientTokenStep1 = func(a *Authenticator, ctx context.Context, d *TokenAuthData, n *SecurityNegotiation) error {
		d.RA = ra
		r1 = vhStepResult("step1")
		return r1
	}
	VerifHook_Authenticator_sendClientTokenStep3 = func(a *Authenticator, ctx context.Context, d *TokenAuthData, n *SecurityNegotiation) error {
		d.SessionKey = vBlob("session_key", 32)
		r3 = vhStepResult("step3")
		return r3
	}
	mac := vBlob("mac_expected", 4)
	VerifHook_Authenticator_computeTokenMAC = func(a *Authenticator, key []byte, parts ...interface{}) []byte { return mac }
	status := vInt("p_status")
	pid := vPick("p_id", []string{"mallory@pool", "alice@pool", ""})
	pra := vBytes("p_ra", 4)
	prb := vBytes("p_rb", 4)
	pmac := vBytes("p_mac", 4)
	io_.peer = func(k int) []vhItem {
		if k > 0 || vBool("eof0") {
			return nil
		}
		return []vhItem{{kind: vkInt, i: status}, {kind: vkInt, i: vInt("p_idlen")}, {kind: vkStr, s: pid},
			{kind: vkInt, i: vInt("p_sidlen")}, {kind: vkStr, s: "server@pool"},
			{kind: vkInt, i: vInt("p_ralen")}, {kind: vkBytes, b: pra}, {kind: vkInt, i: vInt("p_rblen")}, {kind: vkBytes, b: prb},
			{kind: vkInt, i: vInt("p_maclen")}, {kind: vkBytes, b: pmac}}
	}
	a := &Authenticator{config: &SecurityConfig{}, stream: st}
	neg := &SecurityNegotiation{IsClient: true}
	err := a.performTokenAuthenticationClient(vhCtx, AuthToken, neg)
	if err != nil {
		vCover("token-auth-fails")
		vAssert(len(neg.GetSharedSecret()) == 0, "failed-authentication-installs-no-key")
		return
	}
	vCover("token-auth-succeeds")
	vAssert(rl == nil && rd == nil && r1 == nil && r3 == nil, "success-only-if-every-step-succeeded")
	vAssert(status == AUTH_PW_A_OK, "success-only-if-server-reported-ok")
	vAssert(pid == "alice@pool", "server-echoed-this-clients-identity")
	vAssertBytesEqual(pra, ra, "server-echoed-this-clients-nonce")
	vAssertBytesEqual(pmac, mac, "server-mac-is-the-expected-mac")
}

package security

import (
	"encoding/base64"
	"sync"
	"time"

	"github.com/PelicanPlatform/classad/classad"
	"github.com/bbockelm/cedar/stream"
)

func init() {
	vRegister("VH_C17_CacheLockset", VH_C17_CacheLockset)
	vRegister("VH_C17_SharedConfig", VH_C17_SharedConfig)
}

const vhC17Ops = 17

type vhC17State struct {
	cache *SessionCache
	e     [2]*SessionEntry
	ids   [3]string
}

// vhC17Entry builds an entry whose expiry is either absent or an arbitrary instant
// within two hours either side of the harness clock reading (at least a minute
// away from it, so that the native clock agrees about which side it is on).
func vhC17Entry(tag, id string, base time.Time, never bool) *SessionEntry {
	var exp time.Time
	if !never {
		off := vInt64(tag + "_expOff")
		vAssume(off >= -int64(2*time.Hour) && off <= int64(2*time.Hour))
		vAssume(off <= -int64(time.Minute) || off >= int64(time.Minute))
		exp = base.Add(time.Duration(off))
	}
	lease := time.Duration(vIteInt(vBool(tag+"_hasLease"), int(30*time.Minute), 0))
	return NewSessionEntry(id, "<198.51.100.7:40000>", &KeyInfo{Data: []byte("0123456789abcdef0123456789abcdef"), Protocol: "AES"}, classad.New(), exp, lease, "")
}

// vhC17Do performs one public operation of the session cache or of an entry a
// connection holds a pointer to.
func vhC17Do(st *vhC17State, op, which int, fresh *SessionEntry) {
	id := st.ids[which]
	ent := st.e[which&1]
	switch op {
	case 0:
		st.cache.Store(fresh)
	case 1:
		st.cache.Lookup(id)
	case 2:
		st.cache.LookupNonExpired(id)
	case 3:
		st.cache.LookupByCommand("", "<a:1>", "7")
	case 4:
		st.cache.MapCommand("", "<a:1>", "9", id)
	case 5:
		st.cache.Invalidate(id)
	case 6:
		st.cache.InvalidateExpired()
	case 7:
		ent.RenewLease()
	case 8:
		ent.IsExpired()
	case 9:
		for _, e := range st.cache.Snapshot() {
			_ = e.IsExpired()
			_ = e.IsInherited()
			_ = e.Expiration()
		}
	case 10:
		_ = st.cache.DebugDump()
	case 11:
		_ = st.cache.Size()
	case 12:
		st.cache.Clear()
	case 13:
		ent.SetLastPeerVersion("$CondorVersion: 24.0.0 $")
		_ = ent.LastPeerVersion()
	case 14:
		ent.SetInherited(true)
		_ = ent.IsInherited()
	case 15:
		_ = ent.Expiration()
	case 16:
		_ = ent.ID() + ent.Addr() + ent.Tag()
		_, _, _ = ent.KeyInfo(), ent.Policy(), ent.Lease()
	}
}

// VH_C17_CacheLockset: every pair of public session-cache / session-entry
// operations, from a cache holding two entries in arbitrary expiry states, obeys
// a consistent lock discipline: any two accesses to the same field or map, at
// least one of them a write, happen under a common mutex (held for writing by
// the writer). Lock-set consistency is a sufficient condition for the absence of
// data races on that state under every interleaving. The engine runs the two
// operations one after the other with lock-set logging on every path; the native
// replay runs the same pair in two goroutines under the race detector. After
// quiescence an invalidated id is unreachable by every lookup.
//
//verif:race
//verif:unwind 8
func VH_C17_CacheLockset() {
	base := time.Now()
	st := &vhC17State{cache: NewSessionCache(), ids: [3]string{"s0", "s1", "zz"}}
	st.e[0] = vhC17Entry("e0", "s0", base, false)
	st.e[1] = vhC17Entry("e1", "s1", base, true)
	st.cache.Store(st.e[0])
	st.cache.Store(st.e[1])
	st.cache.MapCommand("", "<a:1>", "7", "s0")
	opA := vChoice("opA", vhC17Ops)
	opB := vChoice("opB", vhC17Ops)
	vAssume(opA <= opB) // the pair is unordered
	wA := vChoice("whichA", 3)
	wB := vChoice("whichB", 2) * 2 // s0 or the absent id
	freshA := vhC17Entry("fa", st.ids[wA], base, true)
	freshB := vhC17Entry("fb", st.ids[wB], base, false)
	if vIsNative() {
		var wg sync.WaitGroup
		wg.Add(2)
		go func() {
			defer wg.Done()
			for i := 0; i < 20; i++ {
				vhC17Do(st, opA, wA, freshA)
			}
		}()
		go func() {
			defer wg.Done()
			for i := 0; i < 20; i++ {
				vhC17Do(st, opB, wB, freshB)
			}
		}()
		wg.Wait()
	} else {
		vTrackBegin(0)
		vhC17Do(st, opA, wA, freshA)
		vTrackEnd()
		vTrackBegin(1)
		vhC17Do(st, opB, wB, freshB)
		vTrackEnd()
	}
	vAssertNoLocksetConflict(0, 1, "cache-operations-share-a-lock-on-every-shared-location")
	vCover("pair-ran")
	// post-condition after quiescence
	invA := opA == 5 || opA == 12
	invB := opB == 5 || opB == 12
	storeA := opA == 0 && wA == 0
	storeB := opB == 0 && wB == 0
	if ((invA && (wA == 0 || opA == 12)) || (invB && (wB == 0 || opB == 12))) && !storeA && !storeB {
		vCover("invalidated")
		_, a := st.cache.Lookup("s0")
		_, b := st.cache.LookupNonExpired("s0")
		_, c := st.cache.LookupByCommand("", "<a:1>", "7")
		vAssert(!a && !b && !c, "invalidated-id-unreachable-after-quiescence")
	}
	vAssert(st.cache.Size() <= 3, "size-consistent")
}

// VH_C17_SharedConfig: two client handshakes started from one shared
// SecurityConfig (what client.ConnectAndAuthenticateWithConfig and
// SecurityManager do) neither write a location the other touches without a
// common lock, nor disturb one another: each authenticator advertises, in the
// security ad it sends, the public half of its own ephemeral key whatever the
// other one has done in between.
//
//verif:race
func VH_C17_SharedConfig() {
	cfg := &SecurityConfig{
		AuthMethods:    []AuthMethod{AuthFS},
		Authentication: SecurityOptional,
		CryptoMethods:  []CryptoMethod{CryptoAES},
		Encryption:     SecurityOptional,
		Integrity:      SecurityOptional,
		Command:        60007,
	}
	s := [2]*stream.Stream{stream.NewStream(&vhConn{}), stream.NewStream(&vhConn{})}
	var auths [2]*Authenticator
	var ads [2]*classad.ClassAd
	start := func(k int) {
		auths[k] = NewAuthenticator(cfg, s[k])
		ads[k] = auths[k].createClientSecurityAd()
	}
	if vIsNative() {
		var wg sync.WaitGroup
		wg.Add(2)
		for k := 0; k < 2; k++ {
			go func(k int) {
				defer wg.Done()
				start(k)
			}(k)
		}
		wg.Wait()
	} else {
		vTrackBegin(0)
		start(0)
		vTrackEnd()
		vTrackBegin(1)
		start(1)
		vTrackEnd()
	}
	vAssertNoLocksetConflict(0, 1, "handshakes-sharing-a-config-do-not-write-it")
	// one interleaving, the same in both modes: the second handshake is set up
	// between the first one's construction and its first message
	first := NewAuthenticator(cfg, s[0])
	second := NewAuthenticator(cfg, s[1])
	for _, a := range []*Authenticator{first, second} {
		if a.ecdhPrivKey == nil {
			vAssume(false)
		}
		own := base64.StdEncoding.EncodeToString(a.ecdhPrivKey.PublicKey().Bytes())
		adv, _ := a.createClientSecurityAd().EvaluateAttrString("ECDHPublicKey")
		vAssert(adv == own, "client-advertises-its-own-ephemeral-key")
		srv, _ := a.createServerSecurityAd(&SecurityNegotiation{}).EvaluateAttrString("ECDHPublicKey")
		vAssert(srv == own, "server-advertises-its-own-ephemeral-key")
	}
	vCover("two-handshakes-one-config")
}

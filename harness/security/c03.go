package security

import (
	"context"
	"errors"

	"github.com/bbockelm/cedar/commands"
	"github.com/bbockelm/cedar/stream"
)

func init() {
	vRegister("VH_C03_Summaries", VH_C03_Summaries)
	vRegister("VH_C03_ClientAuth", VH_C03_ClientAuth)
	vRegister("VH_C10_ClientPolicyKept", VH_C10_ClientPolicyKept)
	vRegister("VH_C03_ClientEnc", VH_C03_ClientEnc)
	vRegister("VH_C03_ServerAuth", VH_C03_ServerAuth)
	vRegister("VH_C03_ServerEnc", VH_C03_ServerEnc)
	vRegister("VH_C03_ClientGlue", VH_C03_ClientGlue)
	vRegister("VH_C03_ServerGlue", VH_C03_ServerGlue)
	vRegister("VH_C03_ClientResume", VH_C03_ClientResume)
}

// The handshake is decided piecewise. performFullAuthentication and
// ServerHandshakeWithMessage run negotiateSecurity, then the authentication
// phase, then setupStreamEncryption on one negotiation object (checked by the
// Glue harnesses, where the three steps are replaced by recording stubs). The
// Auth and Enc harnesses run the real steps from an arbitrary parsed peer
// configuration, which is what the peer's security ad can produce at most.

var vhEOFNames = [10]string{"eof0", "eof1", "eof2", "eof3", "eof4", "eof5", "eof6", "eof7", "eof8", "eof9"}
var vhBMNames = [4]string{"bm0", "bm1", "bm2", "bm3"}

// VH_C03_Summaries: the branch-free summaries used by the other harnesses equal
// the real bitmask tables on every input.
func VH_C03_Summaries() {
	b := vInt("b")
	vAssert(bitmaskToAuthMethod(b) == vhBitmaskToAuthMethod(b), "bitmask-to-method-summary-exact")
	m := AuthMethod(vString("m", 10))
	vAssert(authMethodToBitmask(m) == vhAuthMethodToBitmask(m), "method-to-bitmask-summary-exact")
	vCover("summaries")
}

var vhPeerLevelNames = []string{"YES", "NO", "REQUIRED", "PREFERRED", "OPTIONAL", "NEVER", "", "yes"}
var vhPeerMethodNames = []string{"FS", "TOKEN", "SSL", "CLAIMTOBE", "KERBEROS", "PASSWORD", "BOGUS", "NONE"}

// vhPeerMethods: what a peer's method list can parse to (0..2 arbitrary names).
func vhPeerMethods(name string) []AuthMethod {
	n := vChoice(name+"_n", 3)
	var out []AuthMethod
	if n >= 1 {
		out = append(out, AuthMethod(vPick(name+"_0", vhPeerMethodNames)))
	}
	if n >= 2 {
		out = append(out, AuthMethod(vPick(name+"_1", vhPeerMethodNames)))
	}
	return out
}

var vhCryptoNames = []string{"AES", "BLOWFISH", "3DES", "AESGCM"}

func vhCryptoList(name string) []CryptoMethod {
	n := vChoice(name+"_n", 3)
	var out []CryptoMethod
	if n >= 1 {
		out = append(out, CryptoMethod(vPick(name+"_0", vhCryptoNames)))
	}
	if n >= 2 {
		out = append(out, CryptoMethod(vPick(name+"_1", vhCryptoNames)))
	}
	return out
}

func vhRounds() int { return 2 }

// VH_C03_ClientAuth: real negotiateSecurity + handleClientAuthentication (+
// exchangeKey) for every own policy and method list against an arbitrary parsed
// server configuration and arbitrary bitmask replies. On success: REQUIRED
// authentication means a method really completed; whatever ran was offered by
// this client; the reported flag and method are what ran.
//
//verif:unwind 6
func VH_C03_ClientAuth() { vhClientAuth(false) }

// VH_C10_ClientPolicyKept: the same run read for C10: whatever a handshake does,
// the method list of the caller's configuration is afterwards exactly what was
// configured, so the next handshake from the same configuration (another server)
// negotiates from the configured list, not from what the previous peer left of it.
//
//verif:unwind 6
func VH_C10_ClientPolicyKept() { vhClientAuth(true) }

// (lite: the peer never hangs up mid-exchange -- that dimension is the C03 run's)
func vhClientAuth(lite bool) {
	st := stream.NewStream(&vhConn{})
	io_ := &vhIO{st: st}
	defer vhInstall(io_)()
	vhStubCrypto("")
	vhUseSummaries()
	cfg := &SecurityConfig{
		Authentication: vhLevel("cAuth"),
		Encryption:     SecurityOptional,
		Integrity:      SecurityOptional,
		AuthMethods:    vhMethods("cM", false),
		CryptoMethods:  []CryptoMethod{CryptoAES},
	}
	srv := &SecurityConfig{
		Authentication: SecurityLevel(vPick("sAuth", vhPeerLevelNames)),
		Encryption:     "NO",
		AuthMethods:    vhPeerMethods("sM"),
		CryptoMethods:  []CryptoMethod{CryptoAES},
	}
	a := &Authenticator{config: cfg, stream: st}
	configured := append([]AuthMethod{}, cfg.AuthMethods...)
	kept := func() bool {
		same := len(cfg.AuthMethods) == len(configured)
		for i := 0; same && i < len(configured); i++ {
			same = vAnd(same, cfg.AuthMethods[i] == configured[i])
		}
		return same
	}
	neg := &SecurityNegotiation{Command: commands.DC_AUTHENTICATE, ClientConfig: cfg, ServerConfig: srv, IsClient: true}
	round := 0
	io_.peer = func(k int) []vhItem {
		if k >= len(vhEOFNames) || (!lite && vBool(vhEOFNames[k])) {
			return nil
		}
		if _, ok := vhRanOK(); ok {
			return []vhItem{{kind: vkInt, i: 0}} // key-exchange word (C13 covers other values)
		}
		if round >= vhRounds() {
			return nil
		}
		r := vInt(vhBMNames[round])
		round++
		return []vhItem{{kind: vkInt, i: r}}
	}
	if a.negotiateSecurity(neg) != nil {
		vCover("negotiation-fails")
		return
	}
	if a.handleClientAuthentication(vhCtx, neg) != nil {
		vCover("authentication-phase-fails")
		vAssert(kept(), "handshake-leaves-the-configured-method-list-as-it-was")
		return
	}
	vCover("authentication-phase-succeeds")
	vAssert(kept(), "handshake-leaves-the-configured-method-list-as-it-was")
	method, ran := vhRanOK()
	vTag("ran", vhB2I(ran))
	vAssert(vImplies(cfg.Authentication == SecurityRequired, ran), "required-authentication-really-ran")
	vAssert(vImplies(ran, vhListed(cfg.AuthMethods, method)), "only-offered-methods-run")
	vAssert(neg.Authentication == ran, "reported-authentication-equals-what-ran")
	vAssert(vImplies(ran, neg.NegotiatedAuth == method), "reported-method-is-the-one-that-ran")
}

// VH_C03_ClientEnc: real negotiateSecurity + setupStreamEncryption for every
// own encryption/integrity policy against an arbitrary parsed server
// configuration (levels, cipher lists, key present or not) and either outcome of
// the key agreement. On success REQUIRED encryption/integrity means the stream
// is keyed, and the reported flag equals the stream state.
//
//verif:unwind 6
func VH_C03_ClientEnc() { vhEnc(true) }

// VH_C03_ServerEnc: the same on the server side.
//
//verif:unwind 6
func VH_C03_ServerEnc() { vhEnc(false) }

func vhEnc(isClient bool) {
	st := stream.NewStream(&vhConn{})
	io_ := &vhIO{st: st}
	defer vhInstall(io_)()
	vhStubCrypto("")
	own := &SecurityConfig{
		Authentication: SecurityOptional,
		Encryption:     vhLevel("oEnc"),
		Integrity:      vhLevel("oInt"),
		AuthMethods:    []AuthMethod{AuthFS},
		CryptoMethods:  vhCryptoList("oC"),
		ECDHPublicKey:  vIteStr(vBool("oKey"), "OWN-ECDH-KEY", ""),
	}
	peer := &SecurityConfig{
		Authentication: "NO",
		Encryption:     SecurityLevel(vPick("pEnc", vhPeerLevelNames)),
		Integrity:      SecurityLevel(vPick("pInt", vhPeerLevelNames)),
		AuthMethods:    []AuthMethod{AuthFS},
		CryptoMethods:  vhCryptoList("pC"),
		ECDHPublicKey:  vIteStr(vBool("pKey"), "PEER-ECDH-KEY", ""),
	}
	a := &Authenticator{config: own, stream: st}
	neg := &SecurityNegotiation{Command: commands.DC_AUTHENTICATE, IsClient: isClient}
	if isClient {
		neg.ClientConfig, neg.ServerConfig = own, peer
	} else {
		neg.ClientConfig, neg.ServerConfig = peer, own
	}
	if a.negotiateSecurity(neg) != nil {
		vCover("negotiation-fails")
		return
	}
	if a.setupStreamEncryption(neg) != nil {
		vCover("key-setup-fails")
		return
	}
	vCover("key-setup-succeeds")
	enc := st.IsEncrypted()
	vTag("encrypted", vhB2I(enc))
	vAssert(vImplies(vOr(own.Encryption == SecurityRequired, own.Integrity == SecurityRequired), enc), "required-encryption-stream-is-keyed")
	vAssert(neg.Encryption == enc, "reported-encryption-equals-stream-state")
	vAssert(vImplies(enc, len(neg.GetSharedSecret()) == 32), "session-key-recorded-when-keyed")
}

// VH_C03_ServerAuth: real negotiateSecurity + handleServerAuthentication (+
// exchangeKey) for every own policy against an arbitrary parsed client
// configuration and arbitrary client bitmasks.
//
//verif:unwind 6
func VH_C03_ServerAuth() { vhServerAuth(nil) }

func vhServerAuth(rounds func(cfg *SecurityConfig, io_ *vhIO, asked []int, err error)) {
	st := stream.NewStream(&vhConn{})
	io_ := &vhIO{st: st}
	defer vhInstall(io_)()
	vhStubCrypto("alice@pool")
	vhUseSummaries()
	cfg := &SecurityConfig{
		Authentication: vhLevel("sAuth"),
		Encryption:     SecurityOptional,
		Integrity:      SecurityOptional,
		AuthMethods:    vhMethods("sM", false),
		CryptoMethods:  []CryptoMethod{CryptoAES},
	}
	cli := &SecurityConfig{
		Authentication: SecurityLevel(vPick("cAuth", vhPeerLevelNames)),
		Encryption:     SecurityOptional,
		AuthMethods:    vhPeerMethods("cM"),
		CryptoMethods:  []CryptoMethod{CryptoAES},
	}
	a := &Authenticator{config: cfg, stream: st}
	neg := &SecurityNegotiation{Command: commands.DC_AUTHENTICATE, ClientConfig: cli, ServerConfig: cfg, IsClient: false}
	round := 0
	var asked []int
	io_.peer = func(k int) []vhItem {
		if k >= len(vhEOFNames) || vBool(vhEOFNames[k]) || round >= vhRounds() {
			return nil
		}
		r := vInt(vhBMNames[round])
		round++
		asked = append(asked, r)
		return []vhItem{{kind: vkInt, i: r}}
	}
	if a.negotiateSecurity(neg) != nil {
		vCover("negotiation-fails")
		return
	}
	err := a.handleServerAuthentication(vhCtx, neg)
	if err != nil {
		vCover("authentication-phase-fails")
	} else {
		vCover("authentication-phase-succeeds")
	}
	if rounds != nil {
		rounds(cfg, io_, asked, err)
		return
	}
	if err != nil {
		return
	}
	method, ran := vhRanOK()
	vTag("ran", vhB2I(ran))
	vAssert(vImplies(cfg.Authentication == SecurityRequired, ran), "required-authentication-really-ran")
	vAssert(vImplies(ran, vhListed(cfg.AuthMethods, method)), "only-configured-methods-run")
	vAssert(neg.Authentication == ran, "reported-authentication-equals-what-ran")
	vAssert(vImplies(ran, neg.NegotiatedAuth == method), "reported-method-is-the-one-that-ran")
	vAssert(vImplies(ran, neg.User == "alice@pool"), "identity-is-what-the-method-established")
	vAssert(vImplies(!ran, neg.User == ""), "no-identity-without-authentication")
}

func vhB2I(b bool) int {
	if b {
		return 1
	}
	return 0
}

// ---- glue ---------------------------------------------------------------------

type vhStepLog struct {
	order []string
	negs  []*SecurityNegotiation
}

func vhStubSteps(log *vhStepLog, client bool) {
	rec := func(name string, n *SecurityNegotiation, failName string) error {
		log.order = append(log.order, name)
		log.negs = append(log.negs, n)
		if vBool(failName) {
			return errors.New(name + " failed")
		}
		return nil
	}
	VerifHook_Authenticator_negotiateSecurity = func(a *Authenticator, n *SecurityNegotiation) error {
		return rec("negotiate", n, "fail_negotiate")
	}
	VerifHook_Authenticator_handleClientAuthentication = func(a *Authenticator, ctx context.Context, n *SecurityNegotiation) error {
		return rec("client-auth", n, "fail_auth")
	}
	VerifHook_Authenticator_handleServerAuthentication = func(a *Authenticator, ctx context.Context, n *SecurityNegotiation) error {
		return rec("server-auth", n, "fail_auth")
	}
	VerifHook_Authenticator_setupStreamEncryption = func(a *Authenticator, n *SecurityNegotiation) error {
		return rec("encryption", n, "fail_enc")
	}
}

// VH_C03_ClientGlue: performFullAuthentication with the three steps replaced by
// recording stubs and an arbitrary server: success means the steps ran once each,
// in the order negotiate -> authenticate -> key setup, all returned nil, on the
// negotiation object that is returned; the peer's levels reach the negotiation
// unchanged; a denial or a post-auth code other than AUTHORIZED fails the
// handshake.
//
//verif:unwind 6
func VH_C03_ClientGlue() {
	st := stream.NewStream(&vhConn{})
	io_ := &vhIO{st: st}
	defer vhInstall(io_)()
	vhNoSessionStore()
	log := &vhStepLog{}
	vhStubSteps(log, true)
	cfg := &SecurityConfig{Authentication: SecurityRequired, Encryption: SecurityRequired, Integrity: SecurityOptional,
		AuthMethods: []AuthMethod{AuthSSL}, CryptoMethods: []CryptoMethod{CryptoAES}, Command: 60007,
		PeerName: "<192.0.2.1:9618>", SessionCache: NewSessionCache()}
	a := &Authenticator{config: cfg, stream: st}
	srv, post := vPeerAd("srv", 10), vPeerAd("post", 10)
	for _, at := range []string{"AuthMethodsList", "AuthMethods", "CryptoMethodsList", "CryptoMethods", "IssuerKeys", "Command", "AuthCommand",
		"RemoteVersion", "TrustDomain", "SessionDuration", "SessionLease", "ECDHPublicKey", "ErrorString"} {
		srv.Delete(at)
	}
	for _, at := range []string{"SessionDuration", "SessionLease", "ValidCommands", "User"} {
		post.Delete(at)
	}
	io_.peer = func(k int) []vhItem {
		if vBool(vhEOFNames[k]) {
			return nil
		}
		if k == 0 {
			return []vhItem{{kind: vkAd, ad: srv}}
		}
		return []vhItem{{kind: vkAd, ad: post}}
	}
	neg, err := a.performFullAuthentication(vhCtx, cfg.SessionCache)
	if err != nil {
		vCover("handshake-fails")
		return
	}
	vCover("handshake-succeeds")
	vAssert(len(log.order) == 3 && log.order[0] == "negotiate" && log.order[1] == "client-auth" && log.order[2] == "encryption", "steps-run-once-in-order")
	if len(log.negs) == 3 {
		vAssert(log.negs[0] == neg && log.negs[1] == neg && log.negs[2] == neg, "one-negotiation-object-throughout")
	}
	vAssert(neg.IsClient && neg.ClientConfig == cfg, "own-policy-is-the-configured-one")
	if rc, ok := srv.EvaluateAttrString("ReturnCode"); ok {
		vAssert(rc == "" || rc == "AUTHORIZED", "denied-negotiation-fails-the-handshake")
	}
	if rc, ok := post.EvaluateAttrString("ReturnCode"); ok {
		vAssert(rc == "AUTHORIZED", "post-auth-code-other-than-authorized-fails")
	}
	if v, ok := srv.EvaluateAttrString("Authentication"); ok {
		vAssert(string(neg.ServerConfig.Authentication) == v, "server-answer-reaches-negotiation-unchanged")
	}
	if v, ok := srv.EvaluateAttrString("Encryption"); ok {
		vAssert(string(neg.ServerConfig.Encryption) == v, "server-encryption-answer-reaches-negotiation-unchanged")
	}
	vAssert(len(io_.sent) == 1, "client-sends-exactly-its-opening-message")
}

// VH_C03_ServerGlue: the same for ServerHandshakeWithMessage; in addition a
// failed negotiation sends a DENIED ad before returning the error.
//
//verif:unwind 6
func VH_C03_ServerGlue() {
	st := stream.NewStream(&vhConn{})
	st.SetPeerAddr("<198.51.100.7:40000>")
	io_ := &vhIO{st: st}
	defer vhInstall(io_)()
	vhNoSessionStore()
	log := &vhStepLog{}
	vhStubSteps(log, false)
	cfg := &SecurityConfig{Authentication: SecurityRequired, Encryption: SecurityRequired, Integrity: SecurityOptional,
		AuthMethods: []AuthMethod{AuthSSL}, CryptoMethods: []CryptoMethod{CryptoAES}, SessionCache: NewSessionCache()}
	a := &Authenticator{config: cfg, stream: st}
	cli := vPeerAd("cli", 10)
	for _, at := range []string{"AuthMethodsList", "AuthMethods", "CryptoMethodsList", "CryptoMethods", "IssuerKeys", "AuthCommand",
		"RemoteVersion", "TrustDomain", "SessionDuration", "SessionLease", "ECDHPublicKey", "UseSession"} {
		cli.Delete(at)
	}
	cmd := vInt("cmd")
	io_.peer = func(k int) []vhItem {
		if k > 0 || vBool(vhEOFNames[k]) {
			return nil
		}
		return []vhItem{{kind: vkInt, i: cmd}, {kind: vkAd, ad: cli}}
	}
	neg, err := a.ServerHandshake(vhCtx)
	if err != nil {
		vCover("handshake-fails")
		if len(log.order) == 1 && log.order[0] == "negotiate" && cmd == commands.DC_AUTHENTICATE {
			// negotiation failed: a denial ad must have gone out
			vAssert(len(io_.sent) == 1, "denial-sent-on-failed-negotiation")
			if len(io_.sent) == 1 && len(io_.sent[0]) == 1 && io_.sent[0][0].kind == vkAd {
				rc, ok := io_.sent[0][0].ad.EvaluateAttrString("ReturnCode")
				vAssert(ok && rc == "DENIED", "denial-carries-return-code")
			}
			vCover("denial-sent")
		}
		return
	}
	vCover("handshake-succeeds")
	vAssert(cmd == commands.DC_AUTHENTICATE, "only-authenticate-command-starts-a-handshake")
	vAssert(len(log.order) == 3 && log.order[0] == "negotiate" && log.order[1] == "server-auth" && log.order[2] == "encryption", "steps-run-once-in-order")
	if len(log.negs) == 3 {
		vAssert(log.negs[0] == neg && log.negs[1] == neg && log.negs[2] == neg, "one-negotiation-object-throughout")
	}
	vAssert(!neg.IsClient && neg.ServerConfig == cfg, "own-policy-is-the-configured-one")
	if v, ok := cli.EvaluateAttrString("Authentication"); ok {
		vAssert(string(neg.ClientConfig.Authentication) == v, "client-level-reaches-negotiation-unchanged")
	}
	vAssert(len(io_.sent) == 2, "server-sends-its-ad-then-the-post-auth-ad")
}

// VH_C03_ClientResume: the resumption path is a handshake too: a client whose own
// policy requires encryption or integrity never gets a successful resumeSession on
// a plaintext stream, whatever the cached entry holds and whatever the server
// answers (see VH_C06_ClientResume, which carries the assertion).
//
//verif:unwind 6
func VH_C03_ClientResume() { VH_C06_ClientResume() }

package security

import (
	"github.com/bbockelm/cedar/commands"
	"github.com/bbockelm/cedar/stream"
)

func init() {
	vRegister("VH_C10_Denial", VH_C10_Denial)
}

// VH_C10_Denial: the real ServerHandshake with the real negotiateSecurity (the
// authentication and key-setup steps stubbed) for every pair of authentication and
// encryption levels on both sides, with and without a common method and cipher:
// whenever the negotiation fails the server first answers with an explicit denial
// (ReturnCode DENIED and a reason) instead of just closing, in all six failing
// cells of the table; when it does not fail the server's ad is sent and no denial.
//
//verif:unwind 6
func VH_C10_Denial() {
	st := stream.NewStream(&vhConn{})
	st.SetPeerAddr("<198.51.100.7:40000>")
	io_ := &vhIO{st: st}
	defer vhInstall(io_)()
	vhNoSessionStore()
	log := &vhStepLog{}
	vhStubSteps(log, false)
	VerifHook_Authenticator_negotiateSecurity = nil // the real one
	common := vBool("common_method_and_cipher")
	cfg := &SecurityConfig{Authentication: vhLevel("sAuth"), Encryption: vhLevel("sEnc"), Integrity: SecurityOptional,
		AuthMethods: []AuthMethod{AuthFS}, CryptoMethods: []CryptoMethod{CryptoAES}, SessionCache: NewSessionCache()}
	a := &Authenticator{config: cfg, stream: st}
	cli := vhC04PeerAd("c", true)
	if !common {
		_ = cli.Set("AuthMethods", "KERBEROS")
		_ = cli.Set("CryptoMethods", "3DES")
	}
	io_.peer = func(k int) []vhItem {
		if k > 0 {
			return nil
		}
		return []vhItem{{kind: vkInt, i: commands.DC_AUTHENTICATE}, {kind: vkAd, ad: cli}}
	}
	_, err := a.ServerHandshake(vhCtx)
	negotiated := len(log.order) > 0
	if err != nil && !negotiated {
		vCover("negotiation-fails")
		told := len(io_.sent) == 1 && len(io_.sent[0]) == 1 && io_.sent[0][0].kind == vkAd
		vAssert(told, "failed-negotiation-is-answered-before-the-close")
		if told {
			rc, ok := io_.sent[0][0].ad.EvaluateAttrString("ReturnCode")
			vAssert(ok && rc == "DENIED", "the-answer-is-an-explicit-denial")
			reason, _ := io_.sent[0][0].ad.EvaluateAttrString("ErrorString")
			vAssert(reason != "", "the-denial-carries-a-reason")
		}
		return
	}
	vCover("negotiation-goes-ahead")
	if len(io_.sent) >= 1 && len(io_.sent[0]) == 1 && io_.sent[0][0].kind == vkAd {
		rc, ok := io_.sent[0][0].ad.EvaluateAttrString("ReturnCode")
		vAssert(!ok || rc != "DENIED", "no-denial-when-the-negotiation-goes-ahead")
	}
}

package addresses

import "strings"

var _ = strings.Contains

func init() {
	vRegister("VH_C13_AddressText", VH_C13_AddressText)
	vRegister("VH_C13_CCBContact", VH_C13_CCBContact)
}

// VH_C13_AddressText: ParseHTCondorAddress and IsValidSharedPortID on an arbitrary
// ASCII address text (<= 8 bytes): no panic (every index and slice bound is an
// obligation); an id IsValidSharedPortID accepts is non-empty and made of safe bytes
// only.
//
//verif:unwind 16
func VH_C13_AddressText() {
	s := vString("addr", 8)
	vAssume(vASCIIStr(s))
	info := ParseHTCondorAddress(s)
	if info.IsSharedPort {
		vCover("shared-port-address")
	} else {
		vCover("plain-address")
	}
	// the documented validity rule for shared-port ids (letters, digits, '.', '-', '_')
	if IsValidSharedPortID(info.SharedPortID) {
		vCover("valid-id")
		vAssert(info.SharedPortID != "" && vNoneOf(info.SharedPortID, "/ <>#%?&=\x00"), "valid-id-has-only-safe-bytes")
	}
}

// VH_C13_CCBContact: SplitCCBContact on an arbitrary ASCII contact (<= 10 bytes):
// no panic; an accepted contact yields a non-empty broker and a non-empty id
// without '#'.
//
//verif:unwind 16
func VH_C13_CCBContact() {
	s := vString("contact", 10)
	vAssume(vASCIIStr(s))
	broker, id, ok := SplitCCBContact(s)
	if !ok {
		vCover("contact-rejected")
		vAssert(broker == "" && id == "", "nothing-returned-on-rejection")
		return
	}
	vCover("contact-accepted")
	vAssert(broker != "" && id != "", "both-parts-present")
	vAssert(vNoneOf(id, "#"), "id-is-the-last-hop")
	vAssert(BrokerIsCCB(broker) == strings.Contains(broker, "#"), "nested-broker-recognised")
}

package server

import (
	"context"
	"errors"
	"io"
	"net"
	"time"

	"github.com/bbockelm/cedar/commands"
	"github.com/bbockelm/cedar/message"
	"github.com/bbockelm/cedar/security"
	"github.com/bbockelm/cedar/stream"
)

func init() {
	vRegister("VH_C05_Dispatch", VH_C05_Dispatch)
}

type vhAddr struct{}

func (vhAddr) Network() string { return "tcp" }
func (vhAddr) String() string  { return "198.51.100.7:40000" }

type vhConn struct {
	closed bool
}

func (c *vhConn) Read(p []byte) (int, error)         { return 0, io.EOF }
func (c *vhConn) Write(p []byte) (int, error)        { return len(p), nil }
func (c *vhConn) Close() error                       { c.closed = true; return nil }
func (c *vhConn) LocalAddr() net.Addr                { return vhAddr{} }
func (c *vhConn) RemoteAddr() net.Addr               { return vhAddr{} }
func (c *vhConn) SetDeadline(t time.Time) error      { return nil }
func (c *vhConn) SetReadDeadline(t time.Time) error  { return nil }
func (c *vhConn) SetWriteDeadline(t time.Time) error { return nil }

const (
	vhRaw = 100
	vhA0  = 200 // no requirement
	vhA1  = 201 // authentication REQUIRED
	vhA2  = 202 // encryption REQUIRED
	vhA3  = 203 // integrity REQUIRED
)

type vhCall struct {
	cmd       int
	authed    bool
	encrypted bool
	user      string
	closed    bool
	hs        int
	seq       int
	raw       bool
}

type vhGrant struct {
	perm, user string
	ok         bool
	seq        int
}

// VH_C05_Dispatch: the real ServeConn with one raw and four authenticated
// handlers whose per-command policies differ, an arbitrary first command, an
// arbitrary handshake result (error, or any authentication / encryption /
// identity / requested command), an authorizer that answers arbitrarily and
// differently each time it is asked, and up to two further commands on a kept
// alive connection. Every handler invocation must be for its own command, on an
// open connection, through the right path (raw <=> no handshake), on a session
// that meets that command's policy now, and authorized by a grant obtained for
// this very dispatch; a refused or unknown command closes the connection and no
// handler runs afterwards.
//
//verif:unwind 6
func VH_C05_Dispatch() {
	cmds := []int{vInt("cmd0"), vInt("cmd1"), vInt("cmd2")}
	ncmd := 0
	eofNames := [3]string{"eof0", "eof1", "eof2"}
	message.VerifHook_NewMessageFromStream = func(s message.StreamInterface) *message.Message { return &message.Message{} }
	message.VerifHook_Message_GetInt = func(m *message.Message, ctx context.Context) (int, error) {
		if ncmd >= len(cmds) || vBool(eofNames[ncmd]) {
			return 0, io.EOF
		}
		ncmd++
		return cmds[ncmd-1], nil
	}
	hs := 0
	seq := 0
	var calls []vhCall
	var grants []vhGrant
	conn := &vhConn{}
	users := []string{"", "alice@pool", "bob@pool"}
	var neg *security.SecurityNegotiation
	security.VerifHook_NewAuthenticator = func(c *security.SecurityConfig, s *stream.Stream) *security.Authenticator {
		return &security.Authenticator{}
	}
	security.VerifHook_Authenticator_ServerHandshakeWithMessage = func(a *security.Authenticator, ctx context.Context, m *message.Message, command int) (*security.SecurityNegotiation, error) {
		hs++
		if vBool("hs_fails") {
			return nil, errors.New("handshake failed")
		}
		neg = &security.SecurityNegotiation{
			Authentication: vBool("neg_auth"),
			Encryption:     vBool("neg_enc"),
			User:           vPick("neg_user", users),
			ClientConfig:   &security.SecurityConfig{Command: vInt("real_cmd")},
		}
		return neg, nil
	}
	defer func() {
		message.VerifHook_NewMessageFromStream = nil
		message.VerifHook_Message_GetInt = nil
		security.VerifHook_NewAuthenticator = nil
		security.VerifHook_Authenticator_ServerHandshakeWithMessage = nil
	}()

	// the server-wide default policy: permissive, or demanding authentication (it
	// governs every command the per-command function has no override for)
	strictBase := vBool("strict_default_policy")
	base := &security.SecurityConfig{Authentication: security.SecurityLevel(vIteStr(strictBase, "REQUIRED", "OPTIONAL")), Encryption: security.SecurityOptional, Integrity: security.SecurityOptional}
	s := New(base)
	s.SecurityConfigForCommand = func(cmd int) *security.SecurityConfig {
		c := *base
		switch cmd {
		case vhA1:
			c.Authentication = security.SecurityRequired
		case vhA2:
			c.Encryption = security.SecurityRequired
		case vhA3:
			c.Integrity = security.SecurityRequired
		case vhA0:
			return nil
		}
		return &c
	}
	withAuthorizer := vBool("with_authorizer")
	gnames := [8]string{"g0", "g1", "g2", "g3", "g4", "g5", "g6", "g7"}
	if withAuthorizer {
		s.Authorizer = func(perm, addr, user string) bool {
			if len(grants) >= len(gnames) {
				vAssume(false)
			}
			seq++
			ok := vBool(gnames[len(grants)])
			grants = append(grants, vhGrant{perm, user, ok, seq})
			return ok
		}
	}
	kaNames := [3]string{"ka0", "ka1", "ka2"}
	mk := func(own int, raw bool) HandlerFunc {
		return func(ctx context.Context, c *Conn) error {
			seq++
			call := vhCall{cmd: c.Command, closed: conn.closed, hs: hs, seq: seq, raw: raw}
			vAssert(c.Command == own, "handler-invoked-for-its-own-command")
			if c.Negotiation != nil {
				call.authed, call.encrypted, call.user = c.Negotiation.Authentication, c.Negotiation.Encryption, c.Negotiation.User
			}
			k := len(calls)
			calls = append(calls, call)
			if k < len(kaNames) && vBool(kaNames[k]) {
				c.KeepAlive()
			}
			return nil
		}
	}
	s.HandleRaw(vhRaw, mk(vhRaw, true))
	s.Handle(vhA0, mk(vhA0, false), "READ")
	s.Handle(vhA1, mk(vhA1, false), "WRITE", "ADMIN")
	s.Handle(vhA2, mk(vhA2, false), "WRITE")
	s.Handle(vhA3, mk(vhA3, false), "READ")

	err := s.ServeConn(context.Background(), conn)

	prevSeq := 0
	for i, c := range calls {
		vAssert(!c.closed, "handler-runs-on-open-connection")
		if c.raw {
			vCover("raw-handler-ran")
			vAssert(c.hs == 0, "raw-handler-only-without-handshake")
			vAssert(i == 0 && len(calls) == 1, "raw-path-runs-one-handler")
			vAssert(cmds[0] == vhRaw, "raw-handler-reached-by-its-command")
		} else {
			vCover("authenticated-handler-ran")
			vAssert(c.hs == 1, "authenticated-handler-only-after-one-handshake")
			vAssert(cmds[0] == commands.DC_AUTHENTICATE, "authenticated-path-starts-with-authenticate")
			vAssert(vImplies(c.cmd == vhA1, c.authed), "authentication-required-command-on-authenticated-session")
			vAssert(vImplies(vAnd(c.cmd == vhA0, strictBase), c.authed), "command-without-override-is-held-to-the-default-policy")
			vAssert(vImplies(vOr(c.cmd == vhA2, c.cmd == vhA3), c.encrypted), "encryption-or-integrity-required-command-on-encrypted-session")
			if withAuthorizer {
				granted := false
				for _, g := range grants {
					permOK := false
					for _, p := range s.CommandPerms(c.cmd) {
						permOK = vOr(permOK, p == g.perm)
					}
					granted = vOr(granted, vAnd(vAnd(g.ok, permOK), vAnd(g.user == c.user, vAnd(g.seq > prevSeq, g.seq < c.seq))))
				}
				vAssert(granted, "authorized-by-a-grant-obtained-for-this-dispatch")
			}
		}
		prevSeq = c.seq
	}
	if err != nil {
		vCover("connection-refused-or-failed")
		vAssert(conn.closed, "refusal-closes-the-connection")
	}
	if len(calls) == 0 {
		vCover("no-handler-ran")
	}
}

package server

import (
	"context"
	"sync"

	"github.com/bbockelm/cedar/commands"
	"github.com/bbockelm/cedar/message"
	"github.com/bbockelm/cedar/security"
)

func init() {
	vRegister("VH_C17_ServerConfigs", VH_C17_ServerConfigs)
}

// VH_C17_ServerConfigs: two connections served by one Server whose base
// SecurityConfig and per-command SecurityConfig are single shared objects (what
// an embedding daemon hands over). The handshake writes its per-connection
// ephemeral key into the configuration it works on -- the real NewAuthenticator
// runs here, and the stubbed handshake performs the write the real one makes
// into the per-command policy it selects (security/auth.go: perCmd.ECDHPublicKey
// = ...; a.config = perCmd). Neither shared object may be touched by that: each
// connection works on copies. Lock-set disjointness between the two ServeConn
// calls, pointer identity of what the handshake is handed, and the shared objects
// unchanged afterwards.
//
//verif:race
func VH_C17_ServerConfigs() {
	base := &security.SecurityConfig{Authentication: security.SecurityOptional, Encryption: security.SecurityOptional, Integrity: security.SecurityOptional}
	perCmd := &security.SecurityConfig{Authentication: security.SecurityRequired, Encryption: security.SecurityRequired, Integrity: security.SecurityOptional}
	usePerCmd := vBool("per_command_policy")
	var mu sync.Mutex
	var handed []*security.SecurityConfig
	message.VerifHook_NewMessageFromStream = func(s message.StreamInterface) *message.Message { return &message.Message{} }
	message.VerifHook_Message_GetInt = func(m *message.Message, ctx context.Context) (int, error) {
		return commands.DC_AUTHENTICATE, nil
	}
	security.VerifHook_Authenticator_ServerHandshakeWithMessage = func(a *security.Authenticator, ctx context.Context, m *message.Message, command int) (*security.SecurityNegotiation, error) {
		if a.ServerConfigForCommand != nil {
			if pc := a.ServerConfigForCommand(vhA1); pc != nil {
				pc.ECDHPublicKey = "this connection's ephemeral key"
				mu.Lock()
				handed = append(handed, pc)
				mu.Unlock()
			}
		}
		return &security.SecurityNegotiation{Authentication: true, Encryption: true, User: "alice@pool",
			ClientConfig: &security.SecurityConfig{Command: vhA1}}, nil
	}
	defer func() {
		message.VerifHook_NewMessageFromStream = nil
		message.VerifHook_Message_GetInt = nil
		security.VerifHook_Authenticator_ServerHandshakeWithMessage = nil
	}()
	s := New(base)
	if usePerCmd {
		s.SecurityConfigForCommand = func(cmd int) *security.SecurityConfig { return perCmd }
	}
	var ran [2]bool
	var conns [2]*vhConn
	conns[0], conns[1] = &vhConn{}, &vhConn{}
	s.Handle(vhA1, func(ctx context.Context, c *Conn) error { return nil }, "WRITE")
	var errs [2]error
	serve := func(k int) {
		errs[k] = s.ServeConn(context.Background(), conns[k])
		ran[k] = true
	}
	if vIsNative() {
		var wg sync.WaitGroup
		wg.Add(2)
		for k := 0; k < 2; k++ {
			go func(k int) { defer wg.Done(); serve(k) }(k)
		}
		wg.Wait()
	} else {
		vTrackBegin(0)
		serve(0)
		vTrackEnd()
		vTrackBegin(1)
		serve(1)
		vTrackEnd()
	}
	vAssertNoLocksetConflict(0, 1, "connections-share-no-written-configuration")
	vAssert(errs[0] == nil && errs[1] == nil, "both-connections-served")
	vAssert(base.ECDHPublicKey == "" && perCmd.ECDHPublicKey == "", "shared-configurations-untouched-by-handshakes")
	if usePerCmd {
		vCover("per-command-policy")
		vAssert(len(handed) == 2, "policy-selected-once-per-connection")
		for _, pc := range handed {
			vAssert(pc != perCmd && pc != base, "handshake-works-on-a-private-copy-of-the-policy")
			vAssert(pc.Authentication == perCmd.Authentication && pc.Encryption == perCmd.Encryption, "copy-carries-the-policy")
		}
		if len(handed) == 2 {
			vAssert(handed[0] != handed[1], "connections-get-distinct-copies")
		}
	} else {
		vCover("base-policy-only")
	}
}

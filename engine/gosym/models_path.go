package gosym

import (
	"fmt"
	"net"
	"path/filepath"
	"regexp/syntax"

	"golang.org/x/tools/go/ssa"
)

// ---- path/filepath (Unix) ------------------------------------------------------

// canonicalAbs: p is absolute and filepath.Clean(p) == p, as one bounded formula:
// starts with '/', no empty component, no "." or ".." component, no trailing
// slash unless p == "/".
func (in *Interp) canonicalAbs(p StrV) *Term {
	tb := in.tb
	n := in.needBound(p, "filepath.Clean")
	slash := func(i int) *Term { return tb.Eq(in.strByte(p, i), tb.Const(8, '/')) }
	dot := func(i int) *Term { return tb.Eq(in.strByte(p, i), tb.Const(8, '.')) }
	inStr := func(i int) *Term { return tb.SLt(tb.Int(int64(i)), p.Len) }
	endAt := func(i int) *Term { return tb.Eq(p.Len, tb.Int(int64(i))) } // position i is the end of the string
	cs := []*Term{tb.SLe(tb.Int(1), p.Len)}
	if n == 0 {
		return tb.False
	}
	cs = append(cs, slash(0))
	for i := 0; i < n; i++ {
		// a component boundary after a slash at i (i < len)
		here := tb.And(inStr(i), slash(i))
		// no "//"
		if i+1 < n {
			cs = append(cs, tb.Not(tb.And(here, inStr(i+1), slash(i+1))))
		}
		// no trailing slash unless the whole path is "/"
		if i > 0 {
			cs = append(cs, tb.Not(tb.And(here, endAt(i+1))))
		}
		// no "/." component: "/." followed by end or slash
		if i+1 < n {
			after1 := endAt(i + 2)
			if i+2 < n {
				after1 = tb.Or(after1, tb.And(inStr(i+2), slash(i+2)))
			}
			cs = append(cs, tb.Not(tb.And(here, inStr(i+1), dot(i+1), after1)))
		}
		// no "/.." component
		if i+2 < n {
			after2 := endAt(i + 3)
			if i+3 < n {
				after2 = tb.Or(after2, tb.And(inStr(i+3), slash(i+3)))
			}
			cs = append(cs, tb.Not(tb.And(here, inStr(i+1), dot(i+1), inStr(i+2), dot(i+2), after2)))
		}
	}
	return tb.And(cs...)
}

// requireHolds makes sure c is implied by the path condition (used where a
// model is only valid under a precondition the real caller established).
func (in *Interp) requireHolds(c *Term, what string) {
	if c.IsTrue() {
		return
	}
	ch := in.decide(func() []int {
		if in.check(in.tb.Not(c)) == Unsat {
			return []int{0}
		}
		return []int{1}
	})
	if ch == 1 {
		in.inconclusive = append(in.inconclusive, "model precondition not established: "+what)
		in.endPath("unwind")
	}
}

func registerPathNatives(in *Interp) {
	n := in.natives
	tb := in.tb
	n["path/filepath.IsAbs"] = func(in *Interp, fn *ssa.Function, args []Value) Value {
		p := args[0].(StrV)
		if in.needBound(p, "filepath.IsAbs") == 0 {
			return tb.False
		}
		return tb.And(tb.SLe(tb.Int(1), p.Len), tb.Eq(in.strByte(p, 0), tb.Const(8, '/')))
	}
	n["path/filepath.Clean"] = func(in *Interp, fn *ssa.Function, args []Value) Value {
		p := args[0].(StrV)
		if s, ok := in.concreteStr(p); ok {
			return in.strConst(cleanPath(s))
		}
		canon := in.canonicalAbs(p)
		if in.branch(canon) {
			return p
		}
		// some other string: the callers only compare the result with the input
		nm := in.fresh("cleaned", SArr)
		ln := in.fresh("cleaned.len", BV(64))
		bound := in.needBound(p, "filepath.Clean")
		in.addConstraint(tb.And(tb.SLe(tb.Int(1), ln), tb.SLe(ln, tb.Int(int64(bound)))))
		r := StrV{Mem: symMem(nm), Off: tb.Int(0), Len: ln, Max: bound}
		in.addConstraint(tb.Not(in.strEq(r, p)))
		in.noteAssumption("filepath.Clean of a non-canonical path is an arbitrary different string (callers only compare it with the input)")
		return r
	}
	lastSlash := func(in *Interp, p StrV) *Term { return in.strLastIndex(p, []byte{'/'}) }
	n["path/filepath.Dir"] = func(in *Interp, fn *ssa.Function, args []Value) Value {
		p := args[0].(StrV)
		if s, ok := in.concreteStr(p); ok {
			return in.strConst(dirPath(s))
		}
		in.requireHolds(in.canonicalAbs(p), "filepath.Dir on a canonical absolute path")
		ls := lastSlash(in, p)
		// "/x" -> "/", "/a/b" -> "/a", "/" -> "/"
		ln := tb.Ite(tb.Eq(ls, tb.Int(0)), tb.Int(1), ls)
		return StrV{Mem: p.Mem, Off: p.Off, Len: ln, Max: p.Max}
	}
	n["path/filepath.Base"] = func(in *Interp, fn *ssa.Function, args []Value) Value {
		p := args[0].(StrV)
		if s, ok := in.concreteStr(p); ok {
			return in.strConst(basePath(s))
		}
		in.requireHolds(in.canonicalAbs(p), "filepath.Base on a canonical absolute path")
		ls := lastSlash(in, p)
		isRoot := tb.Eq(p.Len, tb.Int(1))
		start := tb.Ite(isRoot, tb.Int(0), tb.Add(ls, tb.Int(1)))
		return StrV{Mem: p.Mem, Off: tb.Add(p.Off, start), Len: tb.Sub(p.Len, start), Max: p.Max}
	}
	n["path/filepath.Join"] = func(in *Interp, fn *ssa.Function, args []Value) Value {
		elems := in.strSliceElems(args[0])
		var parts []string
		for _, e := range elems {
			s, ok := in.concreteStr(e)
			if !ok {
				panic("filepath.Join with symbolic elements unsupported")
			}
			parts = append(parts, s)
		}
		return in.strConst(joinPath(parts))
	}
	// ---- regexp -----------------------------------------------------------------
	n["regexp.MustCompile"] = func(in *Interp, fn *ssa.Function, args []Value) Value {
		pat, ok := in.concreteStr(args[0].(StrV))
		if !ok {
			panic("regexp.MustCompile with a symbolic pattern")
		}
		re, err := syntax.Parse(pat, syntax.Perl)
		if err != nil {
			in.reportViolation("panic", "regexp: Compile: "+err.Error(), in.site(), nil)
			in.endPath("panic:regexp")
		}
		prog, err := syntax.Compile(re.Simplify())
		if err != nil {
			panic(err)
		}
		mo := in.newModel("regexp", &regexModel{pat: pat, prog: prog})
		return Ptr{Obj: in.newObj(mo, nil, "regexp:"+pat)}
	}
	n["(*regexp.Regexp).MatchString"] = func(in *Interp, fn *ssa.Function, args []Value) Value {
		p := args[0].(Ptr)
		if p.Obj == nil {
			in.nilDeref()
		}
		rm := p.Obj.Val.(*ModelObj).Data.(*regexModel)
		return in.regexMatch(rm, args[1].(StrV))
	}
	n["(*regexp.Regexp).String"] = func(in *Interp, fn *ssa.Function, args []Value) Value {
		return in.strConst(args[0].(Ptr).Obj.Val.(*ModelObj).Data.(*regexModel).pat)
	}
	// ---- net ----------------------------------------------------------------------
	n["net.ParseIP"] = func(in *Interp, fn *ssa.Function, args []Value) Value {
		s := args[0].(StrV)
		if cs, ok := in.concreteStr(s); ok {
			ip := parseIPConcrete(cs)
			if ip == nil {
				return in.zero(fn.Signature.Results().At(0).Type())
			}
			o := in.newObj(constMem(ip), nil, "ip")
			return SliceV{Base: Ptr{Obj: o}, Off: tb.Int(0), Len: tb.Int(16), Cap: tb.Int(16), Byte: true, Max: 16}
		}
		hasColon := tb.SLe(tb.Int(0), in.strIndexFrom(s, []byte{':'}, tb.Int(0)))
		if !in.branch(hasColon) {
			// IPv4 dotted quad, exactly as the library parses it
			ok4, oct := in.parseIPv4(s)
			if !in.branch(ok4) {
				return in.zero(fn.Signature.Results().At(0).Type())
			}
			m := zeroMem
			m = in.memStore(m, tb.Int(10), tb.Const(8, 0xff))
			m = in.memStore(m, tb.Int(11), tb.Const(8, 0xff))
			for i := 0; i < 4; i++ {
				m = in.memStore(m, tb.Int(int64(12+i)), oct[i])
			}
			o := in.newObj(m, nil, "ip4")
			return SliceV{Base: Ptr{Obj: o}, Off: tb.Int(0), Len: tb.Int(16), Cap: tb.Int(16), Byte: true, Max: 16}
		}
		packed := in.packStr(s, 40)
		okT := tb.UF("parseip6_ok", SBool, packed)
		in.noteAssumption("net.ParseIP of a text containing ':' (IPv6) is an uninterpreted function of the text; dotted-quad IPv4 is modelled exactly")
		if !in.branch(okT) {
			return in.zero(fn.Signature.Results().At(0).Type())
		}
		m := zeroMem
		for i := 0; i < 16; i++ {
			m = in.memStore(m, tb.Int(int64(i)), tb.UF(fmt.Sprintf("parseip6_b%d", i), BV(8), packed))
		}
		o := in.newObj(m, nil, "ip")
		return SliceV{Base: Ptr{Obj: o}, Off: tb.Int(0), Len: tb.Int(16), Cap: tb.Int(16), Byte: true, Max: 16}
	}
	n["net.SplitHostPort"] = func(in *Interp, fn *ssa.Function, args []Value) Value {
		s := args[0].(StrV)
		bound := in.needBound(s, "net.SplitHostPort")
		if bound == 0 {
			return TupleV{in.strConst(""), in.strConst(""), in.newError("missing port in address")}
		}
		in.noteAssumption("net.SplitHostPort modelled for host:port and [host]:port forms")
		lc := in.strLastIndex(s, []byte{':'})
		if !in.branch(tb.SLe(tb.Int(0), lc)) {
			return TupleV{in.strConst(""), in.strConst(""), in.newError("missing port in address")}
		}
		port := StrV{Mem: s.Mem, Off: tb.Add(s.Off, tb.Add(lc, tb.Int(1))), Len: tb.Sub(s.Len, tb.Add(lc, tb.Int(1))), Max: bound}
		bracket := tb.Eq(in.strByte(s, 0), tb.Const(8, '['))
		if in.branch(bracket) {
			// [host]:port
			closeB := in.strIndexFrom(s, []byte{']'}, tb.Int(0))
			if !in.branch(tb.Eq(tb.Add(closeB, tb.Int(1)), lc)) {
				return TupleV{in.strConst(""), in.strConst(""), in.newError("address format error")}
			}
			host := StrV{Mem: s.Mem, Off: tb.Add(s.Off, tb.Int(1)), Len: tb.Sub(closeB, tb.Int(1)), Max: bound}
			return TupleV{host, port, IfaceV{}}
		}
		host := StrV{Mem: s.Mem, Off: s.Off, Len: lc, Max: bound}
		// more than one colon without brackets is an error
		first := in.strIndexFrom(s, []byte{':'}, tb.Int(0))
		if !in.branch(tb.Eq(first, lc)) {
			return TupleV{in.strConst(""), in.strConst(""), in.newError("too many colons in address")}
		}
		hasBr := tb.Or(tb.SLe(tb.Int(0), in.strIndexFrom(s, []byte{'['}, tb.Int(0))), tb.SLe(tb.Int(0), in.strIndexFrom(s, []byte{']'}, tb.Int(0))))
		if in.branch(hasBr) {
			return TupleV{in.strConst(""), in.strConst(""), in.newError("unexpected bracket in address")}
		}
		return TupleV{host, port, IfaceV{}}
	}
}

// parseIPv4: acceptance and octets of a dotted-quad text (each field 1-3 decimal
// digits, value <= 255, no leading zero in a multi-digit field; exactly three dots).
func (in *Interp) parseIPv4(s StrV) (*Term, [4]*Term) {
	tb := in.tb
	var oct [4]*Term
	dot := []byte{'.'}
	d1 := in.strIndexFrom(s, dot, tb.Int(0))
	d2 := in.strIndexFrom(s, dot, tb.Add(d1, tb.Int(1)))
	d3 := in.strIndexFrom(s, dot, tb.Add(d2, tb.Int(1)))
	d4 := in.strIndexFrom(s, dot, tb.Add(d3, tb.Int(1)))
	neg1 := tb.Int(-1)
	ok := tb.And(tb.Ne(d1, neg1), tb.Ne(d2, neg1), tb.Ne(d3, neg1), tb.Eq(d4, neg1), tb.SLe(s.Len, tb.Int(15)))
	starts := [4]*Term{tb.Int(0), tb.Add(d1, tb.Int(1)), tb.Add(d2, tb.Int(1)), tb.Add(d3, tb.Int(1))}
	ends := [4]*Term{d1, d2, d3, s.Len}
	for k := 0; k < 4; k++ {
		ln := tb.Sub(ends[k], starts[k])
		ok = tb.And(ok, tb.SLe(tb.Int(1), ln), tb.SLe(ln, tb.Int(3)))
		val := tb.Const(16, 0)
		for j := 0; j < 3; j++ {
			b := in.sbyte(s, tb.Add(starts[k], tb.Int(int64(j))))
			used := tb.SLt(tb.Int(int64(j)), ln)
			isDig := tb.And(tb.ULe(tb.Const(8, '0'), b), tb.ULe(b, tb.Const(8, '9')))
			ok = tb.And(ok, tb.Or(tb.Not(used), isDig))
			dv := tb.ZExt(16, tb.Sub(b, tb.Const(8, '0')))
			val = tb.Ite(used, tb.Add(tb.Mul(val, tb.Const(16, 10)), dv), val)
			if j == 0 {
				// no leading zero unless the field is exactly "0"
				ok = tb.And(ok, tb.Or(tb.Ne(b, tb.Const(8, '0')), tb.Eq(ln, tb.Int(1))))
			}
		}
		ok = tb.And(ok, tb.ULe(val, tb.Const(16, 255)))
		oct[k] = tb.Extract(7, 0, val)
	}
	return ok, oct
}

// packStr packs a bounded string into one bit-vector (bytes beyond the length
// zeroed, then the length), for use as an uninterpreted-function argument.
func (in *Interp) packStr(s StrV, max int) *Term {
	tb := in.tb
	n := in.needBound(s, "packStr")
	if n > max {
		n = max
	}
	acc := tb.Extract(15, 0, s.Len)
	for i := 0; i < n; i++ {
		b := tb.Ite(tb.SLt(tb.Int(int64(i)), s.Len), in.strByte(s, i), tb.Const(8, 0))
		acc = tb.Concat(acc, b)
	}
	// pad to a fixed width so every application has the same sort
	for i := n; i < max; i++ {
		acc = tb.Concat(acc, tb.Const(8, 0))
	}
	return acc
}

// ---- regexp simulation ----------------------------------------------------------------

type regexModel struct {
	pat  string
	prog *syntax.Prog
}

func (in *Interp) runeMatchTerm(inst *syntax.Inst, c *Term) *Term {
	tb := in.tb
	fold := (inst.Op == syntax.InstRune || inst.Op == syntax.InstRune1) && syntax.Flags(inst.Arg)&syntax.FoldCase != 0
	if fold {
		// ASCII case folding: compare the lower-cased byte with the lower-cased runes
		lc := in.lowerByte(c)
		r := tb.False
		rs := inst.Rune
		low := func(x rune) rune {
			if x >= 'A' && x <= 'Z' {
				return x + 32
			}
			return x
		}
		if len(rs) == 1 {
			return tb.Eq(lc, tb.Const(8, uint64(low(rs[0]))))
		}
		for i := 0; i+1 < len(rs); i += 2 {
			lo, hi := rs[i], rs[i+1]
			if lo >= 0x80 {
				continue
			}
			if hi >= 0x80 {
				hi = 0x7f
			}
			for x := lo; x <= hi; x++ {
				r = tb.Or(r, tb.Eq(lc, tb.Const(8, uint64(low(x)))))
			}
		}
		return r
	}
	switch inst.Op {
	case syntax.InstRuneAny:
		return tb.ULt(c, tb.Const(8, 0x80))
	case syntax.InstRuneAnyNotNL:
		return tb.And(tb.ULt(c, tb.Const(8, 0x80)), tb.Ne(c, tb.Const(8, '\n')))
	}
	r := tb.False
	rs := inst.Rune
	if len(rs) == 1 {
		if rs[0] >= 0x80 {
			panic("regexp model: non-ASCII rune in pattern")
		}
		return tb.Eq(c, tb.Const(8, uint64(rs[0])))
	}
	for i := 0; i+1 < len(rs); i += 2 {
		lo, hi := rs[i], rs[i+1]
		if lo >= 0x80 {
			continue
		}
		if hi >= 0x80 {
			hi = 0x7f
		}
		r = tb.Or(r, tb.And(tb.ULe(tb.Const(8, uint64(lo)), c), tb.ULe(c, tb.Const(8, uint64(hi)))))
	}
	return r
}

// regexMatch: unanchored match semantics of MatchString, Thompson simulation with
// symbolic thread conditions over the bounded input.
func (in *Interp) regexMatch(rm *regexModel, s StrV) *Term {
	tb := in.tb
	prog := rm.prog
	n := in.needBound(s, "regexp.MatchString")
	in.noteAssumption("regexp matching modelled over bytes; a byte >= 0x80 matches no character class of the (ASCII-only) patterns")
	np := len(prog.Inst)
	var add func(set []*Term, pc int, cond *Term, pos int, depth int)
	add = func(set []*Term, pc int, cond *Term, pos int, depth int) {
		if cond.IsFalse() || depth > 4*np {
			return
		}
		inst := &prog.Inst[pc]
		switch inst.Op {
		case syntax.InstAlt, syntax.InstAltMatch:
			add(set, int(inst.Out), cond, pos, depth+1)
			add(set, int(inst.Arg), cond, pos, depth+1)
		case syntax.InstCapture, syntax.InstNop:
			add(set, int(inst.Out), cond, pos, depth+1)
		case syntax.InstEmptyWidth:
			ew := syntax.EmptyOp(inst.Arg)
			c := cond
			if ew&syntax.EmptyBeginText != 0 {
				c = tb.And(c, tb.Bool(pos == 0))
			}
			if ew&syntax.EmptyEndText != 0 {
				c = tb.And(c, tb.Eq(s.Len, tb.Int(int64(pos))))
			}
			if ew&^(syntax.EmptyBeginText|syntax.EmptyEndText) != 0 {
				panic("regexp model: unsupported empty-width assertion in " + rm.pat)
			}
			add(set, int(inst.Out), c, pos, depth+1)
		case syntax.InstFail:
		default: // rune instructions and InstMatch
			if set[pc] == nil {
				set[pc] = cond
			} else {
				set[pc] = tb.Or(set[pc], cond)
			}
		}
	}
	matched := tb.False
	cur := make([]*Term, np)
	for pos := 0; pos <= n; pos++ {
		// a match may start at any position within the string
		add(cur, prog.Start, tb.SLe(tb.Int(int64(pos)), s.Len), pos, 0)
		next := make([]*Term, np)
		var c *Term
		var valid *Term
		if pos < n {
			c = in.strByte(s, pos)
			valid = tb.SLt(tb.Int(int64(pos)), s.Len)
		}
		for pc := 0; pc < np; pc++ {
			cond := cur[pc]
			if cond == nil {
				continue
			}
			inst := &prog.Inst[pc]
			if inst.Op == syntax.InstMatch {
				matched = tb.Or(matched, cond)
				continue
			}
			if pos < n {
				m := tb.And(valid, cond, in.runeMatchTerm(inst, c))
				add(next, int(inst.Out), m, pos+1, 0)
			}
		}
		cur = next
	}
	return matched
}

// ---- concrete helpers: the engine itself runs on the same platform, so the
// real library functions give the values for concrete arguments ----------------

func cleanPath(p string) string { return filepath.Clean(p) }
func dirPath(p string) string   { return filepath.Dir(p) }
func basePath(p string) string  { return filepath.Base(p) }
func joinPath(parts []string) string {
	return filepath.Join(parts...)
}

func parseIPConcrete(s string) []byte {
	ip := net.ParseIP(s)
	if ip == nil {
		return nil
	}
	return []byte(ip.To16())
}

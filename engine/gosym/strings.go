package gosym

import (
	"fmt"
	"go/token"
	"math"
	"strconv"
	"strings"

	"golang.org/x/tools/go/ssa"
)


func (in *Interp) noteAlloc(n *Term) {
	if in.allocHook != nil {
		in.allocHook(n)
	}
}

func (in *Interp) fpBinop(op token.Token, x, y *Term) Value {
	tb := in.tb
	// Duration.Seconds() compared with zero: decided on the integer duration, so
	// no floating point reaches the solver.
	if x.Op == ORaw && x.N == "dur.seconds" && y.Op == OFPConst && (y.V == 0 || y.V == 1<<63) {
		d := x.A[0]
		z := tb.Const(d.S.W, 0)
		switch op {
		case token.EQL:
			return tb.Eq(d, z)
		case token.NEQ:
			return tb.Ne(d, z)
		case token.LSS:
			return tb.SLt(d, z)
		case token.GTR:
			return tb.SLt(z, d)
		case token.LEQ:
			return tb.SLe(d, z)
		case token.GEQ:
			return tb.SLe(z, d)
		}
	}
	if x.Op == OFPConst && y.Op == OFPConst {
		// both operands concrete: decide comparisons here (IEEE semantics of the
		// host), so that no floating-point term reaches a bit-vector logic
		a, b := math.Float64frombits(x.V), math.Float64frombits(y.V)
		switch op {
		case token.EQL:
			return tb.Bool(a == b)
		case token.NEQ:
			return tb.Bool(a != b)
		case token.LSS:
			return tb.Bool(a < b)
		case token.LEQ:
			return tb.Bool(a <= b)
		case token.GTR:
			return tb.Bool(a > b)
		case token.GEQ:
			return tb.Bool(a >= b)
		}
	}
	if (x.Op == ORaw && x.N == "dur.seconds") || (y.Op == ORaw && y.N == "dur.seconds") {
		panic("Duration.Seconds() used other than in a comparison with zero")
	}
	switch op {
	case token.ADD:
		return tb.Raw("fp.add RNE", SFP, x, y)
	case token.SUB:
		return tb.Raw("fp.sub RNE", SFP, x, y)
	case token.MUL:
		return tb.Raw("fp.mul RNE", SFP, x, y)
	case token.QUO:
		return tb.Raw("fp.div RNE", SFP, x, y)
	case token.EQL:
		return tb.Raw("fp.eq", SBool, x, y)
	case token.NEQ:
		return tb.Not(tb.Raw("fp.eq", SBool, x, y))
	case token.LSS:
		return tb.Raw("fp.lt", SBool, x, y)
	case token.LEQ:
		return tb.Raw("fp.leq", SBool, x, y)
	case token.GTR:
		return tb.Raw("fp.gt", SBool, x, y)
	case token.GEQ:
		return tb.Raw("fp.geq", SBool, x, y)
	}
	panic("fp binop " + op.String())
}

// digitsOf returns the decimal rendering of an integer term as a string value.
// Concrete values give concrete text; symbolic values give a per-term symbolic
// digit string (length 1..20) that is the same for the same term.
func (in *Interp) digitsOf(t *Term, signed bool) StrV {
	tb := in.tb
	if t.IsConst() {
		if signed {
			return in.strConst(strconv.FormatInt(t.SVal(), 10))
		}
		return in.strConst(strconv.FormatUint(t.V, 10))
	}
	if s, ok := in.digitCache[t]; ok {
		return s
	}
	// exact decimal rendering for |t| < 10^18: digit variables d0..d17 with
	// mag == sum d_i * 10^i, the length from comparisons with powers of ten
	w := t.S.W
	t64 := t
	if w < 64 {
		if signed {
			t64 = tb.SExt(64, t)
		} else {
			t64 = tb.ZExt(64, t)
		}
	}
	neg := tb.False
	mag := t64
	if signed {
		neg = tb.SLt(t64, tb.Int(0))
		mag = tb.Ite(neg, tb.Neg(t64), t64)
	}
	const nd = 18
	lim := uint64(1000000000000000000)
	in.addConstraint(tb.ULt(mag, tb.Const(64, lim)))
	in.noteAssumption("integers rendered in decimal (%d, Itoa) are below 10^18 in magnitude")
	name := fmt.Sprintf("dig_t%d", t.ID)
	sum := tb.Int(0)
	digs := make([]*Term, nd)
	pow := uint64(1)
	cs := []*Term{}
	for i := 0; i < nd; i++ {
		d := tb.Sym(fmt.Sprintf("%s_%d", name, i), BV(8))
		digs[i] = d
		cs = append(cs, tb.ULe(d, tb.Const(8, 9)))
		sum = tb.Add(sum, tb.Mul(tb.ZExt(64, d), tb.Const(64, pow)))
		pow *= 10
	}
	cs = append(cs, tb.Eq(sum, mag))
	in.addConstraint(tb.And(cs...))
	// number of digits
	nl := tb.Int(1)
	pow = 10
	for i := 1; i < nd; i++ {
		nl = tb.Add(nl, tb.Ite(tb.ULe(tb.Const(64, pow), mag), tb.Int(1), tb.Int(0)))
		pow *= 10
	}
	signLen := tb.Ite(neg, tb.Int(1), tb.Int(0))
	total := tb.Add(nl, signLen)
	m := zeroMem
	for j := 0; j <= nd; j++ {
		// byte at position j: '-' if neg && j==0, else digit index nl-1-(j-signLen)
		idx := tb.Sub(tb.Sub(nl, tb.Int(1)), tb.Sub(tb.Int(int64(j)), signLen))
		b := tb.Const(8, '0')
		for i := nd - 1; i >= 0; i-- {
			b = tb.Ite(tb.Eq(idx, tb.Int(int64(i))), tb.Add(digs[i], tb.Const(8, '0')), b)
		}
		if j == 0 {
			b = tb.Ite(neg, tb.Const(8, '-'), b)
		}
		m = in.memStore(m, tb.Int(int64(j)), b)
	}
	s := StrV{Mem: m, Off: tb.Int(0), Len: total, Max: nd + 1}
	in.digitCache[t] = s
	in.digitList = append(in.digitList, t)
	if in.digitSigned == nil {
		in.digitSigned = map[*Term]bool{}
	}
	in.digitSigned[t] = signed
	return s
}

func (in *Interp) sprintf(args []Value) Value {
	format, ok := in.concreteStr(args[0].(StrV))
	if !ok {
		return in.strConst("<symbolic format>")
	}
	var vals []Value
	if len(args) > 1 {
		if va, ok := args[1].(SliceV); ok && va.Base.Obj != nil {
			arr := getPath(va.Base.Obj.Val, va.Base.Path).(*ArrayV)
			n := int(va.Len.V)
			vals = arr.E[int(va.Off.V) : int(va.Off.V)+n]
		}
	}
	res := in.strConst("")
	lit := strings.Builder{}
	flush := func() {
		if lit.Len() > 0 {
			res = in.strConcat(res, in.strConst(lit.String()))
			lit.Reset()
		}
	}
	ai := 0
	for i := 0; i < len(format); i++ {
		c := format[i]
		if c != '%' {
			lit.WriteByte(c)
			continue
		}
		i++
		if i >= len(format) {
			break
		}
		// skip flags/width
		for i < len(format) && strings.IndexByte("+-# 0123456789.", format[i]) >= 0 {
			i++
		}
		if i >= len(format) {
			break
		}
		verb := format[i]
		if verb == '%' {
			lit.WriteByte('%')
			continue
		}
		var a Value
		if ai < len(vals) {
			a = vals[ai]
		}
		ai++
		flush()
		iv, _ := a.(IfaceV)
		switch x := iv.V.(type) {
		case StrV:
			if verb == 'q' {
				res = in.strConcat(in.strConcat(in.strConcat(res, in.strConst("\"")), x), in.strConst("\""))
			} else {
				res = in.strConcat(res, x)
			}
		case *Term:
			if x.S.K == KBV && (verb == 'd' || verb == 'v') {
				_, signed, _ := intWidth(iv.T)
				res = in.strConcat(res, in.digitsOf(x, signed))
			} else if x.S.K == KBool && x.IsConst() {
				res = in.strConcat(res, in.strConst(strconv.FormatBool(x.V == 1)))
			} else {
				res = in.strConcat(res, in.strConst("<?>"))
			}
		case *ModelObj:
			if x.Kind == "error" {
				res = in.strConcat(res, in.strConst(x.Data.(*errData).msg))
			} else {
				res = in.strConcat(res, in.strConst("<obj>"))
			}
		default:
			res = in.strConcat(res, in.strConst("<?>"))
		}
	}
	flush()
	return res
}

func registerStringNatives(in *Interp) {
	n := in.natives
	n["strconv.Itoa"] = func(in *Interp, fn *ssa.Function, args []Value) Value {
		return in.digitsOf(args[0].(*Term), true)
	}
}

package gosym

import (
	"fmt"
	"go/token"
	"strconv"
	"strings"

	"golang.org/x/tools/go/ssa"
)


func (in *Interp) noteAlloc(n *Term) {
	if in.allocHook != nil {
		in.allocHook(n)
	}
}

func (in *Interp) fpBinop(op token.Token, x, y *Term) Value {
	tb := in.tb
	switch op {
	case token.ADD:
		return tb.Raw("fp.add RNE", SFP, x, y)
	case token.SUB:
		return tb.Raw("fp.sub RNE", SFP, x, y)
	case token.MUL:
		return tb.Raw("fp.mul RNE", SFP, x, y)
	case token.QUO:
		return tb.Raw("fp.div RNE", SFP, x, y)
	case token.EQL:
		return tb.Raw("fp.eq", SBool, x, y)
	case token.NEQ:
		return tb.Not(tb.Raw("fp.eq", SBool, x, y))
	case token.LSS:
		return tb.Raw("fp.lt", SBool, x, y)
	case token.LEQ:
		return tb.Raw("fp.leq", SBool, x, y)
	case token.GTR:
		return tb.Raw("fp.gt", SBool, x, y)
	case token.GEQ:
		return tb.Raw("fp.geq", SBool, x, y)
	}
	panic("fp binop " + op.String())
}

// digitsOf returns the decimal rendering of an integer term as a string value.
// Concrete values give concrete text; symbolic values give a per-term symbolic
// digit string (length 1..20) that is the same for the same term.
func (in *Interp) digitsOf(t *Term, signed bool) StrV {
	tb := in.tb
	if t.IsConst() {
		if signed {
			return in.strConst(strconv.FormatInt(t.SVal(), 10))
		}
		return in.strConst(strconv.FormatUint(t.V, 10))
	}
	if s, ok := in.digitCache[t]; ok {
		return s
	}
	name := fmt.Sprintf("digits_t%d", t.ID)
	arr := tb.Sym(name, SArr)
	ln := tb.Sym(name+".len", BV(64))
	in.addConstraint(tb.And(tb.SLe(tb.Int(1), ln), tb.SLe(ln, tb.Int(20))))
	s := StrV{Mem: symMem(arr), Off: tb.Int(0), Len: ln, Max: 20}
	// characters are digits or a leading '-', never the separators cedar uses
	cs := []*Term{}
	for i := 0; i < 20; i++ {
		b := tb.Select(arr, tb.Int(int64(i)))
		dig := tb.And(tb.ULe(tb.Const(8, '0'), b), tb.ULe(b, tb.Const(8, '9')))
		if i == 0 && signed {
			dig = tb.Or(dig, tb.Eq(b, tb.Const(8, '-')))
		}
		cs = append(cs, tb.Or(tb.SLe(ln, tb.Int(int64(i))), dig))
	}
	in.addConstraint(tb.And(cs...))
	// injectivity w.r.t. earlier digit strings
	for _, ot := range in.digitList {
		if ot.S != t.S {
			continue
		}
		in.addConstraint(tb.Or(tb.Eq(ot, t), tb.Not(in.strEq(in.digitCache[ot], s))))
	}
	in.digitCache[t] = s
	in.digitList = append(in.digitList, t)
	in.noteAssumption("decimal rendering of a symbolic integer is an uninterpreted injective digit string")
	return s
}

func (in *Interp) sprintf(args []Value) Value {
	format, ok := in.concreteStr(args[0].(StrV))
	if !ok {
		return in.strConst("<symbolic format>")
	}
	var vals []Value
	if len(args) > 1 {
		if va, ok := args[1].(SliceV); ok && va.Base.Obj != nil {
			arr := getPath(va.Base.Obj.Val, va.Base.Path).(*ArrayV)
			n := int(va.Len.V)
			vals = arr.E[int(va.Off.V) : int(va.Off.V)+n]
		}
	}
	res := in.strConst("")
	lit := strings.Builder{}
	flush := func() {
		if lit.Len() > 0 {
			res = in.strConcat(res, in.strConst(lit.String()))
			lit.Reset()
		}
	}
	ai := 0
	for i := 0; i < len(format); i++ {
		c := format[i]
		if c != '%' {
			lit.WriteByte(c)
			continue
		}
		i++
		if i >= len(format) {
			break
		}
		// skip flags/width
		for i < len(format) && strings.IndexByte("+-# 0123456789.", format[i]) >= 0 {
			i++
		}
		if i >= len(format) {
			break
		}
		verb := format[i]
		if verb == '%' {
			lit.WriteByte('%')
			continue
		}
		var a Value
		if ai < len(vals) {
			a = vals[ai]
		}
		ai++
		flush()
		iv, _ := a.(IfaceV)
		switch x := iv.V.(type) {
		case StrV:
			if verb == 'q' {
				res = in.strConcat(in.strConcat(in.strConcat(res, in.strConst("\"")), x), in.strConst("\""))
			} else {
				res = in.strConcat(res, x)
			}
		case *Term:
			if x.S.K == KBV && (verb == 'd' || verb == 'v') {
				_, signed, _ := intWidth(iv.T)
				res = in.strConcat(res, in.digitsOf(x, signed))
			} else if x.S.K == KBool && x.IsConst() {
				res = in.strConcat(res, in.strConst(strconv.FormatBool(x.V == 1)))
			} else {
				res = in.strConcat(res, in.strConst("<?>"))
			}
		case *ModelObj:
			if x.Kind == "error" {
				res = in.strConcat(res, in.strConst(x.Data.(*errData).msg))
			} else {
				res = in.strConcat(res, in.strConst("<obj>"))
			}
		default:
			res = in.strConcat(res, in.strConst("<?>"))
		}
	}
	flush()
	return res
}

func registerStringNatives(in *Interp) {
	n := in.natives
	n["strconv.Itoa"] = func(in *Interp, fn *ssa.Function, args []Value) Value {
		return in.digitsOf(args[0].(*Term), true)
	}
}

package gosym

import (
	"go/types"

	"golang.org/x/tools/go/ssa"
)

// time model: a Time is its real struct {wall, ext, loc} with wall == 0 and
// ext == the instant in nanoseconds (never 0 for a reading of the clock); the
// zero Time is all zero. Every method cedar uses is modelled on that encoding,
// so the standard library's own representation is never interpreted.

func (in *Interp) timeVal(ext *Term) Value {
	return &StructV{F: []Value{in.tb.Const(64, 0), ext, Ptr{}}}
}

func timeExt(v Value) *Term { return v.(*StructV).F[1].(*Term) }

func registerTimeNatives(in *Interp) {
	n := in.natives
	tb := in.tb
	n["time.Now"] = func(in *Interp, fn *ssa.Function, args []Value) Value {
		if in.frozenClock != nil {
			// vClockFrozen: every reading is one fixed instant (harnesses whose code
			// renders the clock into text that is parsed again)
			in.noteAssumption("clock frozen at a fixed instant for this harness (vClockFrozen)")
			return in.timeVal(tb.Int(in.frozenClock.SVal() * 1000000000))
		}
		t := in.fresh("now", BV(64))
		lo := tb.Int(1 << 50)
		if in.lastNow != nil {
			lo = in.lastNow
		}
		in.addConstraint(tb.And(tb.SLe(lo, t), tb.SLe(t, tb.Int(1<<61))))
		if in.firstNow == nil {
			in.firstNow = t
		} else if in.clockWindow != nil {
			in.addConstraint(tb.SLe(t, tb.Add(in.firstNow, in.clockWindow)))
		}
		// the reading's whole seconds: a second fresh symbol, monotone like the
		// instants and (under a clock window) within the window of the first
		sec := in.fresh("now_unix", BV(64))
		in.addConstraint(tb.And(tb.SLe(tb.Int(1<<20), sec), tb.SLe(sec, tb.Int(1<<40))))
		if in.lastSec != nil {
			in.addConstraint(tb.SLe(in.lastSec, sec))
		}
		if in.firstSec == nil {
			in.firstSec = sec
		} else if in.clockWindow != nil && in.clockWindow.IsConst() {
			in.addConstraint(tb.SLe(sec, tb.Add(in.firstSec, tb.Int(in.clockWindow.SVal()/1000000000+1))))
		}
		in.lastSec = sec
		if in.unixOf == nil {
			in.unixOf = map[*Term]*Term{}
		}
		in.unixOf[t] = sec
		in.lastNow = t
		in.noteAssumption("time.Now returns successive non-decreasing instants in [2^50, 2^61] ns; no overflow of instant arithmetic")
		return in.timeVal(t)
	}
	n["(time.Time).Add"] = func(in *Interp, fn *ssa.Function, args []Value) Value {
		return in.timeVal(tb.Add(timeExt(args[0]), args[1].(*Term)))
	}
	n["(time.Time).Sub"] = func(in *Interp, fn *ssa.Function, args []Value) Value {
		return tb.Sub(timeExt(args[0]), timeExt(args[1]))
	}
	n["(time.Time).After"] = func(in *Interp, fn *ssa.Function, args []Value) Value {
		return tb.SLt(timeExt(args[1]), timeExt(args[0]))
	}
	n["(time.Time).Before"] = func(in *Interp, fn *ssa.Function, args []Value) Value {
		return tb.SLt(timeExt(args[0]), timeExt(args[1]))
	}
	n["(time.Time).Equal"] = func(in *Interp, fn *ssa.Function, args []Value) Value {
		return tb.Eq(timeExt(args[0]), timeExt(args[1]))
	}
	n["(time.Time).Compare"] = func(in *Interp, fn *ssa.Function, args []Value) Value {
		a, b := timeExt(args[0]), timeExt(args[1])
		return tb.Ite(tb.SLt(a, b), tb.Int(-1), tb.Ite(tb.Eq(a, b), tb.Int(0), tb.Int(1)))
	}
	n["(time.Time).IsZero"] = func(in *Interp, fn *ssa.Function, args []Value) Value {
		return tb.Eq(timeExt(args[0]), tb.Int(0))
	}
	n["(time.Time).Unix"] = func(in *Interp, fn *ssa.Function, args []Value) Value {
		e := timeExt(args[0])
		if e.IsConst() {
			return tb.Int(e.SVal() / 1000000000)
		}
		if s, ok := in.unixOf[e]; ok {
			return s
		}
		// clock reading plus a constant number of whole seconds
		if e.Op == OAdd && e.A[1].IsConst() && e.A[1].SVal()%1000000000 == 0 {
			if s, ok := in.unixOf[e.A[0]]; ok {
				return tb.Add(s, tb.Int(e.A[1].SVal()/1000000000))
			}
		}
		in.noteAssumption("Time.Unix is an uninterpreted function of the instant")
		return tb.UF("unix_seconds", BV(64), e)
	}
	n["(time.Time).UnixNano"] = func(in *Interp, fn *ssa.Function, args []Value) Value { return timeExt(args[0]) }
	n["(time.Time).Format"] = func(in *Interp, fn *ssa.Function, args []Value) Value { return in.strConst("<time>") }
	n["(time.Time).String"] = func(in *Interp, fn *ssa.Function, args []Value) Value { return in.strConst("<time>") }
	n["(time.Time).UTC"] = func(in *Interp, fn *ssa.Function, args []Value) Value { return args[0] }
	n["(time.Time).Local"] = func(in *Interp, fn *ssa.Function, args []Value) Value { return args[0] }
	n["time.Since"] = func(in *Interp, fn *ssa.Function, args []Value) Value {
		now := n["time.Now"](in, fn, nil)
		return tb.Sub(timeExt(now), timeExt(args[0]))
	}
	n["time.Until"] = func(in *Interp, fn *ssa.Function, args []Value) Value {
		now := n["time.Now"](in, fn, nil)
		return tb.Sub(timeExt(args[0]), timeExt(now))
	}
	n["time.Unix"] = func(in *Interp, fn *ssa.Function, args []Value) Value {
		sec := args[0].(*Term)
		if sec.IsConst() {
			return in.timeVal(tb.Int(sec.SVal()*1000000000 + args[1].(*Term).SVal()))
		}
		// an instant that is an (uninterpreted, injective-at-zero) function of the
		// seconds; its Unix() is the seconds it was built from
		t := tb.UF("unix_to_instant", BV(64), sec)
		if in.unixOf == nil {
			in.unixOf = map[*Term]*Term{}
		}
		in.unixOf[t] = sec
		in.addConstraint(tb.Implies(tb.Ne(sec, tb.Int(0)), tb.Ne(t, tb.Int(0))))
		return in.timeVal(t)
	}
	n["(time.Duration).String"] = func(in *Interp, fn *ssa.Function, args []Value) Value { return in.strConst("<duration>") }
	n["(time.Duration).Seconds"] = func(in *Interp, fn *ssa.Function, args []Value) Value {
		d := args[0].(*Term)
		if d.IsConst() {
			return tb.FPConst(f64bits(float64(d.SVal()) / 1e9))
		}
		return tb.Raw("dur.seconds", SFP, d)
	}
	n["os.Getenv"] = func(in *Interp, fn *ssa.Function, args []Value) Value {
		in.noteAssumption("process environment is empty (os.Getenv returns \"\")")
		return in.strConst("")
	}
	n["os.LookupEnv"] = func(in *Interp, fn *ssa.Function, args []Value) Value {
		in.noteAssumption("process environment is empty (os.Getenv returns \"\")")
		return TupleV{in.strConst(""), tb.False}
	}
	in.intrinsicsExtra["vClockFrozen"] = func(in *Interp, args []Value) Value {
		in.frozenClock = args[0].(*Term)
		return nil
	}
	in.intrinsicsExtra["vClockWindow"] = func(in *Interp, args []Value) Value {
		in.clockWindow = args[0].(*Term)
		return nil
	}
	n["time.Sleep"] = nop
	// Timers and deadlines never fire in the model (time does not pass while the
	// code under test runs): a Timer is a struct whose channel stays empty,
	// WithTimeout / WithDeadline are WithCancel.
	n["time.NewTimer"] = func(in *Interp, fn *ssa.Function, args []Value) Value {
		pt := fn.Signature.Results().At(0).Type().(*types.Pointer)
		tv := in.zero(pt.Elem())
		st := pt.Elem().Underlying().(*types.Struct)
		for i := 0; i < st.NumFields(); i++ {
			if st.Field(i).Name() == "C" {
				tv.(*StructV).F[i] = ChanV{Obj: in.newObj(&chanData{}, st.Field(i).Type(), "chan")}
			}
		}
		in.noteAssumption("timers never fire (time.NewTimer channel stays empty)")
		return Ptr{Obj: in.newObj(tv, pt.Elem(), "timer")}
	}
	n["(*time.Timer).Stop"] = func(in *Interp, fn *ssa.Function, args []Value) Value { return in.tb.True }
	n["(*time.Timer).Reset"] = func(in *Interp, fn *ssa.Function, args []Value) Value { return in.tb.True }
	withCancel := func(in *Interp, fn *ssa.Function, args []Value) Value {
		for _, p := range in.prog.AllPackages() {
			if p.Pkg.Path() == "context" {
				in.noteAssumption("context deadlines never expire (WithTimeout/WithDeadline behave as WithCancel)")
				return in.call(p.Func("WithCancel"), args[:1])
			}
		}
		panic("context package not loaded")
	}
	n["context.WithTimeout"] = withCancel
	n["context.WithDeadline"] = withCancel
	n["math/rand.Shuffle"] = func(in *Interp, fn *ssa.Function, args []Value) Value {
		in.noteAssumption("rand.Shuffle leaves the order unchanged (one of the possible permutations)")
		return nil
	}
	n["os.Getpid"] = func(in *Interp, fn *ssa.Function, args []Value) Value {
		if in.pid == nil {
			in.pid = in.fresh("pid", BV(64))
			in.addConstraint(tb.And(tb.SLe(tb.Int(1), in.pid), tb.SLe(in.pid, tb.Int(1<<22))))
		}
		return in.pid
	}
	n["os.Hostname"] = func(in *Interp, fn *ssa.Function, args []Value) Value {
		return TupleV{in.strConst("host"), IfaceV{}}
	}
}

package gosym

import (
	"bufio"
	"fmt"
	"io"
	"os"
	"os/exec"
	"strconv"
	"strings"
	"time"
)

type SatResult int

const (
	Unsat SatResult = iota
	Sat
	Unknown
)

func (r SatResult) String() string { return [...]string{"unsat", "sat", "unknown"}[r] }

type Solver struct {
	tb      *TB
	cmd     *exec.Cmd
	in      *bufio.Writer
	out     *bufio.Reader
	defined map[*Term]bool
	ufDone  int
	level   int
	log     *bufio.Writer
	logF    *os.File

	NSat, NUnsat, NUnknown int
	Time                   time.Duration
	Errors                 []string
	timeoutMs              int
	pendingPop             bool
}

func solverArgv(name string, timeoutMs int) []string {
	switch name {
	case "z3":
		return []string{"z3", "-in", fmt.Sprintf("-t:%d", timeoutMs)}
	case "cvc5":
		return []string{"cvc5", "--incremental", "--lang=smt2", "--produce-models", fmt.Sprintf("--tlimit-per=%d", timeoutMs)}
	default:
		return []string{"z3-new", "-in", fmt.Sprintf("-t:%d", timeoutMs)}
	}
}

func NewSolver(tb *TB, name string, timeoutMs int, transcript string, logic string) (*Solver, error) {
	argv := solverArgv(name, timeoutMs)
	cmd := exec.Command(argv[0], argv[1:]...)
	stdin, err := cmd.StdinPipe()
	if err != nil {
		return nil, err
	}
	stdout, err := cmd.StdoutPipe()
	if err != nil {
		return nil, err
	}
	cmd.Stderr = os.Stderr
	if err := cmd.Start(); err != nil {
		return nil, err
	}
	s := &Solver{tb: tb, cmd: cmd, in: bufio.NewWriterSize(stdin, 1<<16), out: bufio.NewReaderSize(stdout, 1<<16),
		defined: map[*Term]bool{}, timeoutMs: timeoutMs}
	if transcript != "" {
		f, err := os.Create(transcript)
		if err == nil {
			s.logF = f
			s.log = bufio.NewWriterSize(f, 1<<16)
		}
	}
	s.send("(set-option :global-declarations true)")
	s.send("(set-option :produce-models true)")
	if logic == "" {
		logic = "QF_AUFBV"
	}
	s.send("(set-logic " + logic + ")")
	return s, nil
}

func (s *Solver) Close() {
	if s.cmd != nil {
		s.send("(exit)")
		s.in.Flush()
		done := make(chan struct{})
		go func() { s.cmd.Wait(); close(done) }()
		select {
		case <-done:
		case <-time.After(2 * time.Second):
			s.cmd.Process.Kill()
		}
		s.cmd = nil
	}
	if s.log != nil {
		s.log.Flush()
		s.logF.Close()
		s.log = nil
	}
}

func (s *Solver) send(line string) {
	s.in.WriteString(line)
	s.in.WriteByte('\n')
	if s.log != nil {
		s.log.WriteString(line)
		s.log.WriteByte('\n')
	}
}

// ensure defines t (and everything below it) in the solver.
func (s *Solver) ensure(t *Term) {
	if s.defined[t] {
		return
	}
	// iterative post-order to survive deep chains
	type fr struct {
		t *Term
		i int
	}
	st := []fr{{t, 0}}
	for len(st) > 0 {
		f := &st[len(st)-1]
		if s.defined[f.t] {
			st = st[:len(st)-1]
			continue
		}
		if f.i < len(f.t.A) {
			c := f.t.A[f.i]
			f.i++
			if !s.defined[c] {
				st = append(st, fr{c, 0})
			}
			continue
		}
		x := f.t
		st = st[:len(st)-1]
		s.defined[x] = true
		switch x.Op {
		case OConst, OFPConst:
		case OSym:
			s.send(fmt.Sprintf("(declare-const |%s| %s)", x.N, x.S))
		default:
			if x.Op == OUF {
				for s.ufDone < len(s.tb.UFOrder) {
					s.send(s.tb.UFs[s.tb.UFOrder[s.ufDone]])
					s.ufDone++
				}
			}
			s.send(fmt.Sprintf("(define-fun t%d () %s %s)", x.ID, x.S, x.body()))
		}
	}
}

func (s *Solver) Push() {
	s.send("(push 1)")
	s.level++
}

func (s *Solver) Pop(n int) {
	if n <= 0 {
		return
	}
	s.send(fmt.Sprintf("(pop %d)", n))
	s.level -= n
}

func (s *Solver) Assert(t *Term) {
	s.ensure(t)
	s.send("(assert " + t.ref() + ")")
}

func (s *Solver) readLine() (string, error) {
	for {
		line, err := s.out.ReadString('\n')
		line = strings.TrimSpace(line)
		if line != "" || err != nil {
			return line, err
		}
	}
}

// Check runs check-sat under the current assertions plus extra (scoped).
func (s *Solver) Check(extra ...*Term) SatResult {
	t0 := time.Now()
	if len(extra) > 0 {
		s.send("(push 1)")
		for _, e := range extra {
			s.ensure(e)
			s.send("(assert " + e.ref() + ")")
		}
	}
	s.send("(check-sat)")
	s.in.Flush()
	res := Unknown
	for {
		line, err := s.readLine()
		if err != nil {
			if err != io.EOF || line == "" {
				s.Errors = append(s.Errors, "solver died: "+err.Error())
				break
			}
		}
		if line == "sat" {
			res = Sat
			break
		}
		if line == "unsat" {
			res = Unsat
			break
		}
		if line == "unknown" || strings.HasPrefix(line, "timeout") {
			res = Unknown
			break
		}
		if strings.Contains(line, "error") {
			s.Errors = append(s.Errors, line)
			// an error line precedes the answer; keep reading for the verdict but mark unknown
			continue
		}
	}
	if len(s.Errors) > 0 {
		res = Unknown
	}
	if len(extra) > 0 {
		// keep scope open when sat so that a model can be fetched; caller must call EndCheck
		s.pendingPop = true
	}
	switch res {
	case Sat:
		s.NSat++
	case Unsat:
		s.NUnsat++
	default:
		s.NUnknown++
	}
	s.Time += time.Since(t0)
	return res
}

// EndCheck closes the scope opened by Check(extra...).
func (s *Solver) EndCheck() {
	if s.pendingPop {
		s.send("(pop 1)")
		s.pendingPop = false
	}
}

// Values fetches the values of scalar terms (Bool / BV) after a sat answer.
func (s *Solver) Values(ts []*Term) (map[*Term]uint64, error) {
	res := map[*Term]uint64{}
	if len(ts) == 0 {
		return res, nil
	}
	const chunk = 200
	for i := 0; i < len(ts); i += chunk {
		j := i + chunk
		if j > len(ts) {
			j = len(ts)
		}
		var sb strings.Builder
		sb.WriteString("(get-value (")
		for _, t := range ts[i:j] {
			s.ensure(t)
		}
		for _, t := range ts[i:j] {
			sb.WriteString(t.ref())
			sb.WriteByte(' ')
		}
		sb.WriteString("))")
		// do not log get-value in the transcript (solver specific output)
		s.in.WriteString(sb.String())
		s.in.WriteByte('\n')
		s.in.Flush()
		txt, err := s.readSexp()
		if err != nil {
			return nil, err
		}
		vals := parseValues(txt)
		if len(vals) != j-i {
			return nil, fmt.Errorf("get-value: expected %d values, got %d: %s", j-i, len(vals), txt)
		}
		for k, t := range ts[i:j] {
			res[t] = vals[k]
		}
	}
	return res, nil
}

func (s *Solver) readSexp() (string, error) {
	var sb strings.Builder
	depth := 0
	started := false
	for {
		c, err := s.out.ReadByte()
		if err != nil {
			return sb.String(), err
		}
		if !started {
			if c == '(' {
				started = true
			} else {
				continue
			}
		}
		sb.WriteByte(c)
		if c == '(' {
			depth++
		} else if c == ')' {
			depth--
			if depth == 0 {
				return sb.String(), nil
			}
		}
	}
}

// parseValues extracts the value of each (term value) pair in a get-value answer.
func parseValues(txt string) []uint64 {
	var out []uint64
	// tokens
	i := 0
	n := len(txt)
	depth := 0
	// Each pair is at depth 2: ((t1 v1) (t2 v2)). The value is the last token(s) in the pair.
	var pairStart int
	for i < n {
		c := txt[i]
		if c == '|' {
			i++
			for i < n && txt[i] != '|' {
				i++
			}
			i++
			continue
		}
		if c == '(' {
			depth++
			if depth == 2 {
				pairStart = i
			}
		} else if c == ')' {
			if depth == 2 {
				out = append(out, parsePairValue(txt[pairStart+1:i]))
			}
			depth--
		}
		i++
	}
	return out
}

func parsePairValue(p string) uint64 {
	p = strings.TrimSpace(p)
	// value is the suffix: true | false | #x.. | #b.. | (_ bvN w)
	if strings.HasSuffix(p, ")") {
		k := strings.LastIndex(p, "(_ bv")
		if k >= 0 {
			f := strings.Fields(p[k+5 : len(p)-1])
			v, _ := strconv.ParseUint(f[0], 10, 64)
			return v
		}
		return 0
	}
	k := strings.LastIndexAny(p, " \t\n")
	tok := p[k+1:]
	switch {
	case tok == "true":
		return 1
	case tok == "false":
		return 0
	case strings.HasPrefix(tok, "#x"):
		v, _ := strconv.ParseUint(tok[2:], 16, 64)
		return v
	case strings.HasPrefix(tok, "#b"):
		v, _ := strconv.ParseUint(tok[2:], 2, 64)
		return v
	}
	return 0
}

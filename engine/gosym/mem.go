package gosym

import "sync/atomic"

// Functional byte memories: a base plus an ordered list of point stores and
// range copies (possibly of symbolic length). Reads are resolved into nested
// ite terms, so no array lambda or quantifier ever reaches the solver.

type memKind uint8

const (
	mZero memKind = iota
	mSym
	mConst
	mStore
	mCopy
)

type ByteMem struct {
	kind   memKind
	prev   *ByteMem
	arr    *Term  // mSym
	data   []byte // mConst (bytes beyond len(data) read as 0)
	idx    *Term  // mStore
	val    *Term  // mStore
	dst    *Term  // mCopy
	src    *ByteMem
	srcOff *Term
	n      *Term
	id     int
}

var zeroMem = &ByteMem{kind: mZero}
var emptyMem = zeroMem

var memIDs atomic.Int64

func newMem(m *ByteMem) *ByteMem {
	m.id = int(memIDs.Add(1))
	return m
}

func constMem(b []byte) *ByteMem {
	if len(b) == 0 {
		return zeroMem
	}
	d := make([]byte, len(b))
	copy(d, b)
	return newMem(&ByteMem{kind: mConst, data: d})
}

func symMem(arr *Term) *ByteMem { return newMem(&ByteMem{kind: mSym, arr: arr}) }

type readKey struct {
	m int
	i *Term
}

func (in *Interp) memRead(m *ByteMem, i *Term) *Term {
	tb := in.tb
	if m.kind == mZero {
		return tb.Const(8, 0)
	}
	k := readKey{m.id, i}
	if r, ok := in.readCache[k]; ok {
		return r
	}
	var r *Term
	switch m.kind {
	case mSym:
		r = tb.Select(m.arr, i)
	case mConst:
		if i.IsConst() {
			if i.V < uint64(len(m.data)) {
				r = tb.Const(8, uint64(m.data[i.V]))
			} else {
				r = tb.Const(8, 0)
			}
		} else {
			r = tb.Const(8, 0)
			for j := len(m.data) - 1; j >= 0; j-- {
				if m.data[j] == 0 {
					continue
				}
				r = tb.Ite(tb.Eq(i, tb.Int(int64(j))), tb.Const(8, uint64(m.data[j])), r)
			}
		}
	case mStore:
		c := tb.Eq(i, m.idx)
		if c.IsTrue() {
			r = m.val
		} else if c.IsFalse() {
			r = in.memRead(m.prev, i)
		} else {
			r = tb.Ite(c, m.val, in.memRead(m.prev, i))
		}
	case mCopy:
		c := tb.And(tb.SLe(m.dst, i), tb.SLt(i, tb.Add(m.dst, m.n)))
		if c.IsFalse() {
			r = in.memRead(m.prev, i)
		} else {
			sv := in.memRead(m.src, tb.Add(tb.Sub(i, m.dst), m.srcOff))
			if c.IsTrue() {
				r = sv
			} else {
				r = tb.Ite(c, sv, in.memRead(m.prev, i))
			}
		}
	}
	in.readCache[k] = r
	return r
}

func (in *Interp) memStore(m *ByteMem, i, v *Term) *ByteMem {
	if i.IsConst() && v.IsConst() {
		switch m.kind {
		case mZero:
			if i.V < 4096 {
				d := make([]byte, i.V+1)
				d[i.V] = byte(v.V)
				return newMem(&ByteMem{kind: mConst, data: d})
			}
		case mConst:
			if i.V < 4096 {
				n := len(m.data)
				if int(i.V) >= n {
					n = int(i.V) + 1
				}
				d := make([]byte, n)
				copy(d, m.data)
				d[i.V] = byte(v.V)
				return newMem(&ByteMem{kind: mConst, data: d})
			}
		}
	}
	// overwrite of the same index on top
	if m.kind == mStore && m.idx == i {
		return newMem(&ByteMem{kind: mStore, prev: m.prev, idx: i, val: v})
	}
	return newMem(&ByteMem{kind: mStore, prev: m, idx: i, val: v})
}

// memCopy writes n bytes of src (from srcOff) at dst.
func (in *Interp) memCopy(m *ByteMem, dst *Term, src *ByteMem, srcOff, n *Term) *ByteMem {
	tb := in.tb
	if n.IsConst() {
		if n.V == 0 {
			return m
		}
		if n.V <= 80 && dst.IsConst() {
			// expand to point stores (keeps small concrete structures foldable)
			vals := make([]*Term, n.V)
			for j := uint64(0); j < n.V; j++ {
				vals[j] = in.memRead(src, tb.Add(srcOff, tb.Int(int64(j))))
			}
			for j := uint64(0); j < n.V; j++ {
				m = in.memStore(m, tb.Add(dst, tb.Int(int64(j))), vals[j])
			}
			return m
		}
	}
	return newMem(&ByteMem{kind: mCopy, prev: m, dst: dst, src: src, srcOff: srcOff, n: n})
}

// memDepth is used for diagnostics.
func memDepth(m *ByteMem) int {
	d := 0
	for m != nil && (m.kind == mStore || m.kind == mCopy) {
		d++
		m = m.prev
	}
	return d
}

package gosym

import (
	"fmt"
	"go/token"
	"go/types"
	"math"

	"golang.org/x/tools/go/ssa"
)

func (in *Interp) binop(op token.Token, a, b Value, ta, tbt types.Type) Value {
	tb := in.tb
	switch x := a.(type) {
	case *Term:
		y := b.(*Term)
		if x.S.K == KBool {
			switch op {
			case token.EQL:
				return tb.Eq(x, y)
			case token.NEQ:
				return tb.Ne(x, y)
			case token.AND, token.LAND:
				return tb.And(x, y)
			case token.OR, token.LOR:
				return tb.Or(x, y)
			}
			panic("bool binop " + op.String())
		}
		if x.S.K == KFP {
			return in.fpBinop(op, x, y)
		}
		_, signed, _ := intWidth(ta)
		switch op {
		case token.ADD:
			return tb.Add(x, y)
		case token.SUB:
			return tb.Sub(x, y)
		case token.MUL:
			return tb.Mul(x, y)
		case token.QUO:
			in.mustHold(tb.Ne(y, tb.Const(y.S.W, 0)), "panic", "integer divide by zero")
			if signed {
				return tb.SDiv(x, y)
			}
			return tb.UDiv(x, y)
		case token.REM:
			in.mustHold(tb.Ne(y, tb.Const(y.S.W, 0)), "panic", "integer divide by zero")
			if signed {
				return tb.SRem(x, y)
			}
			return tb.URem(x, y)
		case token.AND:
			return tb.BAnd(x, y)
		case token.OR:
			return tb.BOr(x, y)
		case token.XOR:
			return tb.BXor(x, y)
		case token.AND_NOT:
			return tb.BAnd(x, tb.BNot(y))
		case token.SHL, token.SHR:
			// shift count may have a different width; Go: count >= width gives 0 / sign fill
			w := x.S.W
			var cnt *Term
			if y.S.W > w {
				// saturate
				big := tb.ULe(tb.Const(y.S.W, uint64(w)), y)
				_, ysigned, _ := intWidth(tbt)
				if ysigned {
					in.mustHold(tb.SLe(tb.Const(y.S.W, 0), y), "panic", "negative shift amount")
				}
				cnt = tb.Ite(big, tb.Const(w, uint64(w)), tb.Extract(w-1, 0, y))
			} else {
				_, ysigned, _ := intWidth(tbt)
				if ysigned {
					in.mustHold(tb.SLe(tb.Const(y.S.W, 0), y), "panic", "negative shift amount")
				}
				cnt = tb.ZExt(w, y)
			}
			if op == token.SHL {
				return tb.Shl(x, cnt)
			}
			if signed {
				return tb.AShr(x, cnt)
			}
			return tb.LShr(x, cnt)
		case token.EQL:
			return tb.Eq(x, y)
		case token.NEQ:
			return tb.Ne(x, y)
		case token.LSS:
			if signed {
				return tb.SLt(x, y)
			}
			return tb.ULt(x, y)
		case token.LEQ:
			if signed {
				return tb.SLe(x, y)
			}
			return tb.ULe(x, y)
		case token.GTR:
			if signed {
				return tb.SLt(y, x)
			}
			return tb.ULt(y, x)
		case token.GEQ:
			if signed {
				return tb.SLe(y, x)
			}
			return tb.ULe(y, x)
		}
		panic("int binop " + op.String())
	case StrV:
		y := b.(StrV)
		switch op {
		case token.ADD:
			return in.strConcat(x, y)
		case token.EQL:
			return in.strEq(x, y)
		case token.NEQ:
			return tb.Not(in.strEq(x, y))
		case token.LSS:
			return in.strLess(x, y)
		case token.GTR:
			return in.strLess(y, x)
		case token.LEQ:
			return tb.Not(in.strLess(y, x))
		case token.GEQ:
			return tb.Not(in.strLess(x, y))
		}
		panic("string binop " + op.String())
	}
	// equality on other kinds
	switch op {
	case token.EQL:
		return in.valEqT(a, b, ta)
	case token.NEQ:
		return tb.Not(in.valEqT(a, b, ta))
	}
	panic(fmt.Sprintf("binop %s on %T", op, a))
}

// valEq implements == for pointers, interfaces, structs, channels, funcs(nil), maps(nil), slices(nil).
func (in *Interp) valEq(a, b Value) *Term {
	tb := in.tb
	switch x := a.(type) {
	case *Term:
		y, ok := b.(*Term)
		if !ok {
			return tb.False
		}
		if x.S != y.S {
			return tb.False
		}
		if x.S.K == KFP {
			return tb.Raw("fp.eq", SBool, x, y)
		}
		return tb.Eq(x, y)
	case StrV:
		y, ok := b.(StrV)
		if !ok {
			return tb.False
		}
		return in.strEq(x, y)
	case Ptr:
		y, ok := b.(Ptr)
		if !ok {
			return tb.False
		}
		if x.Obj != y.Obj {
			return tb.False
		}
		if x.Obj == nil {
			return tb.True
		}
		if !samePath(x.Path, y.Path) {
			return tb.False
		}
		if x.BIdx != nil && y.BIdx != nil {
			return tb.Eq(x.BIdx, y.BIdx)
		}
		return tb.Bool(x.BIdx == y.BIdx)
	case IfaceV:
		y, ok := b.(IfaceV)
		if !ok {
			return tb.False
		}
		if x.T == nil || y.T == nil {
			return tb.Bool(x.T == nil && y.T == nil)
		}
		if mx, ok := x.V.(*ModelObj); ok {
			my, ok2 := y.V.(*ModelObj)
			return tb.Bool(ok2 && mx == my)
		}
		if _, ok := y.V.(*ModelObj); ok {
			return tb.False
		}
		if !types.Identical(x.T, y.T) {
			return tb.False
		}
		return in.valEq(x.V, y.V)
	case *StructV:
		y := b.(*StructV)
		r := tb.True
		for i := range x.F {
			r = tb.And(r, in.valEq(x.F[i], y.F[i]))
		}
		return r
	case *ArrayV:
		y := b.(*ArrayV)
		r := tb.True
		for i := range x.E {
			r = tb.And(r, in.valEq(x.E[i], y.E[i]))
		}
		return r
	case SliceV:
		y := b.(SliceV)
		if y.Nil && y.Base.Obj == nil {
			return tb.Bool(x.Nil)
		}
		if x.Nil && x.Base.Obj == nil {
			return tb.Bool(y.Nil)
		}
		panic("slice comparison with non-nil")
	case MapV:
		y := b.(MapV)
		return tb.Bool(x.Obj == y.Obj)
	case *FuncV:
		y := b.(*FuncV)
		return tb.Bool((x == nil) == (y == nil))
	case ChanV:
		y := b.(ChanV)
		return tb.Bool(x.Obj == y.Obj)
	case *ModelObj:
		y, ok := b.(*ModelObj)
		return tb.Bool(ok && x == y)
	case nil:
		return tb.Bool(b == nil)
	}
	panic(fmt.Sprintf("valEq on %T", a))
}

func (in *Interp) convert(v Value, from, to types.Type) Value {
	tb := in.tb
	fu, tu := from.Underlying(), to.Underlying()
	switch x := v.(type) {
	case *Term:
		if tbasic, ok := tu.(*types.Basic); ok {
			if tbasic.Info()&types.IsString != 0 {
				// string(rune/byte)
				if x.IsConst() {
					return in.strConst(string(rune(x.SVal())))
				}
				// single byte < 0x80 assumed
				m := in.memStore(zeroMem, tb.Int(0), tb.Extract(7, 0, x))
				in.noteAssumption("string(rune) of a symbolic value treated as one ASCII byte")
				return StrV{Mem: m, Off: tb.Int(0), Len: tb.Int(1), Max: 1}
			}
			if x.S.K == KFP {
				if tbasic.Info()&types.IsFloat != 0 {
					if tbasic.Kind() == types.Float32 {
						f32 := tb.Raw("(_ to_fp 8 24) RNE", Sort{KFP, 32}, x)
						return tb.Raw("(_ to_fp 11 53) RNE", SFP, f32)
					}
					return x
				}
				w, signed, _ := intWidth(to)
				if x.Op == OFPConst {
					// concrete float to integer: Go's conversion truncates towards zero
					// (values out of range are implementation-defined; such constants do
					// not occur in the code under test)
					f := math.Trunc(math.Float64frombits(x.V))
					if signed && f >= -9.2e18 && f <= 9.2e18 {
						return tb.Const(w, uint64(int64(f)))
					}
					if !signed && f >= 0 && f <= 1.8e19 {
						return tb.Const(w, uint64(f))
					}
				}
				if signed {
					return tb.Raw(fmt.Sprintf("(_ fp.to_sbv %d) RTZ", w), BV(w), x)
				}
				return tb.Raw(fmt.Sprintf("(_ fp.to_ubv %d) RTZ", w), BV(w), x)
			}
			if tbasic.Info()&types.IsFloat != 0 {
				_, signed, _ := intWidth(from)
				if x.IsConst() {
					if signed {
						return tb.FPConst(f64bits(float64(x.SVal())))
					}
					return tb.FPConst(f64bits(float64(x.V)))
				}
				if signed {
					return tb.Raw("(_ to_fp 11 53) RNE", SFP, x)
				}
				return tb.Raw("(_ to_fp_unsigned 11 53) RNE", SFP, x)
			}
			tw, _, ok := intWidth(to)
			if !ok {
				if tbasic.Kind() == types.UnsafePointer {
					return v
				}
				panic(fmt.Sprintf("convert to %v", to))
			}
			_, fsigned, _ := intWidth(from)
			if tw <= x.S.W {
				return tb.Extract(tw-1, 0, x)
			}
			if fsigned {
				return tb.SExt(tw, x)
			}
			return tb.ZExt(tw, x)
		}
	case StrV:
		if ts, ok := tu.(*types.Slice); ok {
			if isByteType(ts.Elem()) {
				return in.strToBytes(x)
			}
			panic("string to []rune unsupported")
		}
		return x
	case SliceV:
		if tbasic, ok := tu.(*types.Basic); ok && tbasic.Info()&types.IsString != 0 {
			if !x.Byte {
				panic("[]rune to string unsupported")
			}
			return in.bytesToStr(x)
		}
		return x
	case Ptr:
		return x
	}
	_ = fu
	return v
}

func (in *Interp) strToBytes(s StrV) SliceV {
	tb := in.tb
	var m *ByteMem
	if s.Off.IsConst() && s.Off.V == 0 {
		m = s.Mem
	} else {
		m = in.memCopy(zeroMem, tb.Int(0), s.Mem, s.Off, s.Len)
	}
	o := in.newObj(m, nil, "bytes(str)")
	return SliceV{Base: Ptr{Obj: o}, Off: tb.Int(0), Len: s.Len, Cap: s.Len, Byte: true, Max: s.Max}
}

func (in *Interp) sliceMem(s SliceV) *ByteMem {
	if s.Base.Obj == nil {
		return zeroMem
	}
	return getPath(s.Base.Obj.Val, s.Base.Path).(*ByteMem)
}

func (in *Interp) bytesToStr(s SliceV) StrV {
	return StrV{Mem: in.sliceMem(s), Off: s.Off, Len: s.Len, Max: s.Max}
}

// ---- strings ---------------------------------------------------------

func (in *Interp) strByte(s StrV, i int) *Term {
	return in.memRead(s.Mem, in.tb.Add(s.Off, in.tb.Int(int64(i))))
}

func (in *Interp) strConcat(a, b StrV) StrV {
	tb := in.tb
	if a.Len.IsConst() && a.Len.V == 0 {
		return b
	}
	if b.Len.IsConst() && b.Len.V == 0 {
		return a
	}
	var m *ByteMem
	if a.Off.IsConst() && a.Off.V == 0 {
		m = a.Mem
	} else {
		m = in.memCopy(zeroMem, tb.Int(0), a.Mem, a.Off, a.Len)
	}
	m = in.memCopy(m, a.Len, b.Mem, b.Off, b.Len)
	mx := -1
	if a.Max >= 0 && b.Max >= 0 {
		mx = a.Max + b.Max
	}
	return StrV{Mem: m, Off: tb.Int(0), Len: tb.Add(a.Len, b.Len), Max: mx}
}

func (in *Interp) strBound(a, b StrV) int {
	n := -1
	if a.Len.IsConst() {
		n = int(a.Len.V)
	} else if b.Len.IsConst() {
		n = int(b.Len.V)
	} else {
		if a.Max >= 0 {
			n = a.Max
		}
		if b.Max >= 0 && (n < 0 || b.Max < n) {
			n = b.Max
		}
	}
	if n < 0 {
		panic("comparison of strings without a static length bound")
	}
	if n > 4096 {
		panic(fmt.Sprintf("string comparison bound too large: %d", n))
	}
	return n
}

func (in *Interp) strEq(a, b StrV) *Term {
	tb := in.tb
	le := tb.Eq(a.Len, b.Len)
	if le.IsFalse() {
		return tb.False
	}
	n := in.strBound(a, b)
	cs := []*Term{le}
	lenConst := a.Len.IsConst() || b.Len.IsConst()
	for i := 0; i < n; i++ {
		e := tb.Eq(in.strByte(a, i), in.strByte(b, i))
		if !lenConst {
			e = tb.Or(tb.SLe(a.Len, tb.Int(int64(i))), e)
		}
		cs = append(cs, e)
	}
	return tb.And(cs...)
}

func (in *Interp) strLess(a, b StrV) *Term {
	tb := in.tb
	n := -1
	if a.Max >= 0 {
		n = a.Max
	}
	if b.Max >= 0 && (n < 0 || b.Max < n) {
		n = b.Max
	}
	if n < 0 {
		panic("ordering of unbounded strings")
	}
	// less = exists first differing position i < min(len) with a[i]<b[i], or a is a proper prefix of b
	res := tb.SLt(a.Len, b.Len) // all compared bytes equal
	for i := n - 1; i >= 0; i-- {
		ii := tb.Int(int64(i))
		ai, bi := in.strByte(a, i), in.strByte(b, i)
		inA := tb.SLt(ii, a.Len)
		inB := tb.SLt(ii, b.Len)
		res = tb.Ite(tb.And(inA, inB),
			tb.Ite(tb.Eq(ai, bi), res, tb.ULt(ai, bi)),
			tb.And(tb.Not(inA), inB))
	}
	return res
}

// concreteStr returns the Go string when s is fully concrete.
func (in *Interp) concreteStr(s StrV) (string, bool) {
	if !s.Len.IsConst() || !s.Off.IsConst() {
		return "", false
	}
	n := int(s.Len.V)
	b := make([]byte, n)
	for i := 0; i < n; i++ {
		t := in.strByte(s, i)
		if !t.IsConst() {
			return "", false
		}
		b[i] = byte(t.V)
	}
	return string(b), true
}

// ---- lookup / maps ----------------------------------------------------

func (in *Interp) lookup(fr *frame, x *ssa.Lookup) Value {
	tb := in.tb
	v := in.get(fr, x.X)
	k := in.get(fr, x.Index)
	switch m := v.(type) {
	case StrV:
		i := in.toInt(k.(*Term))
		in.mustHold(tb.And(tb.SLe(tb.Int(0), i), tb.SLt(i, m.Len)), "panic", "index out of range")
		return in.memRead(m.Mem, tb.Add(m.Off, i))
	case MapV:
		mt := x.X.Type().Underlying().(*types.Map)
		val, ok := in.mapLookup(m, k, mt.Elem())
		if x.CommaOk {
			return TupleV{val, ok}
		}
		return val
	}
	panic(fmt.Sprintf("lookup on %T", v))
}

// mapLookup forks over the entries the key may equal.
func (in *Interp) mapLookup(m MapV, k Value, elem types.Type) (Value, *Term) {
	tb := in.tb
	if m.Obj == nil {
		return in.zero(elem), tb.False
	}
	in.noteMapAccess(m, false)
	md := m.Obj.Val.(*MapData)
	type cand struct {
		idx int
		eq  *Term
	}
	var cands []cand
	for i := len(md.E) - 1; i >= 0; i-- {
		e := md.E[i]
		if !e.Alive {
			continue
		}
		eq := in.valEq(e.K, k)
		if eq.IsFalse() {
			continue
		}
		cands = append(cands, cand{i, eq})
		if eq.IsTrue() {
			break
		}
	}
	if len(cands) == 0 {
		return in.zero(elem), tb.False
	}
	if len(cands) == 1 && cands[0].eq.IsTrue() {
		return md.E[cands[0].idx].V, tb.True
	}
	// fork: alternative i < len = entry i matches (and no earlier candidate), last = absent
	ch := in.choose(len(cands)+1, func(i int) *Term {
		cs := []*Term{}
		for j := 0; j < i && j < len(cands); j++ {
			cs = append(cs, tb.Not(cands[j].eq))
		}
		if i < len(cands) {
			cs = append(cs, cands[i].eq)
		}
		return tb.And(cs...)
	})
	if ch == len(cands) {
		return in.zero(elem), tb.False
	}
	return md.E[cands[ch].idx].V, tb.True
}

func (in *Interp) mapUpdate(m MapV, k, v Value) {
	if m.Obj == nil {
		in.reportViolation("panic", "assignment to entry in nil map", in.site(), nil)
		in.endPath("panic:nil map")
	}
	tb := in.tb
	in.noteMapAccess(m, true)
	md := m.Obj.Val.(*MapData)
	// find the matching live entry (fork on symbolic equality)
	for i := len(md.E) - 1; i >= 0; i-- {
		e := &md.E[i]
		if !e.Alive {
			continue
		}
		eq := in.valEq(e.K, k)
		if eq.IsFalse() {
			continue
		}
		if eq.IsTrue() || in.branch(eq) {
			e.V = v
			return
		}
	}
	_ = tb
	md.E = append(md.E, mapEntry{K: k, V: v, Alive: true})
}

func (in *Interp) mapDelete(m MapV, k Value) {
	if m.Obj == nil {
		return
	}
	in.noteMapAccess(m, true)
	md := m.Obj.Val.(*MapData)
	for i := len(md.E) - 1; i >= 0; i-- {
		e := &md.E[i]
		if !e.Alive {
			continue
		}
		eq := in.valEq(e.K, k)
		if eq.IsFalse() {
			continue
		}
		if eq.IsTrue() || in.branch(eq) {
			e.Alive = false
			return
		}
	}
}

func (in *Interp) mapLen(m MapV) int {
	if m.Obj == nil {
		return 0
	}
	in.noteMapAccess(m, false)
	n := 0
	for _, e := range m.Obj.Val.(*MapData).E {
		if e.Alive {
			n++
		}
	}
	return n
}

// ---- range ------------------------------------------------------------

type iterV struct {
	keys []Value
	vals []Value
	str  *StrV
	pos  int
}

func (in *Interp) rangeIter(v Value, t types.Type) Value {
	switch x := v.(type) {
	case MapV:
		it := &iterV{}
		in.noteMapAccess(x, false)
		if x.Obj != nil {
			for _, e := range x.Obj.Val.(*MapData).E {
				if e.Alive {
					it.keys = append(it.keys, e.K)
					it.vals = append(it.vals, e.V)
				}
			}
		}
		return it
	case StrV:
		s := x
		return &iterV{str: &s}
	}
	panic(fmt.Sprintf("range over %T", v))
}

func (in *Interp) next(it *iterV, x *ssa.Next) Value {
	tb := in.tb
	if x.IsString {
		s := *it.str
		i := tb.Int(int64(it.pos))
		if !in.branch(tb.SLt(i, s.Len)) {
			return TupleV{tb.False, tb.Int(0), tb.Const(32, 0)}
		}
		b := in.memRead(s.Mem, tb.Add(s.Off, i))
		// ASCII assumption for symbolic bytes: multi-byte runes are decoded only when concrete
		if b.IsConst() && b.V >= 0x80 {
			str, ok := in.concreteStr(StrV{Mem: s.Mem, Off: s.Off, Len: s.Len, Max: s.Max})
			if !ok {
				panic("range over string with non-ASCII symbolic content")
			}
			r := []rune(str[it.pos:])[0]
			n := len(string(r))
			if r == 0xFFFD {
				n = 1
			}
			p := it.pos
			it.pos += n
			return TupleV{tb.True, tb.Int(int64(p)), tb.Const(32, uint64(r))}
		}
		if !b.IsConst() {
			in.mustAssumeASCII(b)
		}
		it.pos++
		return TupleV{tb.True, i, tb.ZExt(32, b)}
	}
	if it.pos >= len(it.keys) {
		var kz, vz Value
		tt := x.Type().(*types.Tuple)
		kz = in.zeroOrNil(tt.At(1).Type())
		vz = in.zeroOrNil(tt.At(2).Type())
		return TupleV{tb.False, kz, vz}
	}
	k, v := it.keys[it.pos], it.vals[it.pos]
	it.pos++
	return TupleV{tb.True, k, v}
}

func (in *Interp) zeroOrNil(t types.Type) Value {
	if b, ok := t.(*types.Basic); ok && b.Kind() == types.Invalid {
		return nil
	}
	return in.zero(t)
}

// mustAssumeASCII records (and adds) the assumption that a symbolic byte met
// during rune iteration is < 0x80.
func (in *Interp) mustAssumeASCII(b *Term) {
	c := in.tb.ULt(b, in.tb.Const(8, 0x80))
	if !in.branch(c) {
		in.inconclusive = append(in.inconclusive, "rune iteration over a symbolic non-ASCII byte")
		in.endPath("unwind")
	}
}

// valEqT is valEq with static type information (needed for byte arrays, whose
// values do not carry their length).
func (in *Interp) valEqT(a, b Value, t types.Type) *Term {
	tb := in.tb
	if t == nil {
		return in.valEq(a, b)
	}
	switch x := a.(type) {
	case *ByteMem:
		y := b.(*ByteMem)
		n := int(t.Underlying().(*types.Array).Len())
		cs := make([]*Term, n)
		for i := 0; i < n; i++ {
			ii := tb.Int(int64(i))
			cs[i] = tb.Eq(in.memRead(x, ii), in.memRead(y, ii))
		}
		return tb.And(cs...)
	case *StructV:
		y := b.(*StructV)
		st := t.Underlying().(*types.Struct)
		r := tb.True
		for i := range x.F {
			r = tb.And(r, in.valEqT(x.F[i], y.F[i], st.Field(i).Type()))
		}
		return r
	case *ArrayV:
		y := b.(*ArrayV)
		et := t.Underlying().(*types.Array).Elem()
		r := tb.True
		for i := range x.E {
			r = tb.And(r, in.valEqT(x.E[i], y.E[i], et))
		}
		return r
	case IfaceV:
		y, ok := b.(IfaceV)
		if ok && x.T != nil && y.T != nil && types.Identical(x.T, y.T) {
			if _, isM := x.V.(*ModelObj); !isM {
				return in.valEqT(x.V, y.V, x.T)
			}
		}
	}
	return in.valEq(a, b)
}

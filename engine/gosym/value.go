package gosym

import (
	"fmt"
	"go/types"

	"golang.org/x/tools/go/ssa"
)

// Value is any runtime value of the symbolic interpreter.
//   *Term      scalars (bool, ints, floats)
//   Ptr        pointers
//   *StructV   struct values (immutable)
//   *ArrayV    non-byte arrays (immutable)
//   *ByteMem   byte arrays / backing stores (immutable, persistent)
//   SliceV, StrV, IfaceV, *FuncV, MapV, TupleV, ChanV, *ModelObj
type Value interface{}

type Obj struct {
	ID   int
	Val  Value
	Typ  types.Type
	Tag  string
	// access tracking (used by footprint checks)
}

type Ptr struct {
	Obj  *Obj
	Path []int // field / element indices into Obj.Val
	BIdx *Term // byte index when the location is a *ByteMem element
	Fn   *ssa.Function // pointer-to-function values never occur; unused
}

func (p Ptr) IsNil() bool { return p.Obj == nil }

type StructV struct{ F []Value }
type ArrayV struct{ E []Value }

type SliceV struct {
	Base          Ptr // location of the backing array (*ByteMem or *ArrayV)
	Off, Len, Cap *Term
	Nil           bool
	Byte          bool
	Max           int // static upper bound on Len, -1 unknown
}

type StrV struct {
	Mem      *ByteMem
	Off, Len *Term
	Max      int // static upper bound on Len; -1 unknown
}

type IfaceV struct {
	T types.Type // nil for nil interface
	V Value
}

type FuncV struct {
	Fn   *ssa.Function
	Bind []Value
	Nat  string // native function name (for models returned as func values)
	NatF func(in *Interp, args []Value) Value
}

type MapV struct {
	Obj *Obj // nil = nil map ; Obj.Val is *MapData
}

type mapEntry struct {
	K, V  Value
	Alive bool
}

type MapData struct {
	E []mapEntry
}

type TupleV []Value

type ChanV struct{ Obj *Obj }

// ModelObj is an opaque native-model object (hash state, AEAD, ...).
type ModelObj struct {
	Kind string
	Data interface{}
	ID   int
}

func (in *Interp) newObj(v Value, t types.Type, tag string) *Obj {
	in.nextObj++
	return &Obj{ID: in.nextObj, Val: v, Typ: t, Tag: tag}
}

func isByteType(t types.Type) bool {
	b, ok := t.Underlying().(*types.Basic)
	return ok && (b.Kind() == types.Uint8 || b.Kind() == types.Byte)
}

func intWidth(t types.Type) (w int, signed bool, ok bool) {
	b, isb := t.Underlying().(*types.Basic)
	if !isb {
		return 0, false, false
	}
	switch b.Kind() {
	case types.Int8:
		return 8, true, true
	case types.Int16:
		return 16, true, true
	case types.Int32:
		return 32, true, true
	case types.Int64, types.Int:
		return 64, true, true
	case types.UntypedInt, types.UntypedRune:
		return 64, true, true
	case types.Uint8:
		return 8, false, true
	case types.Uint16:
		return 16, false, true
	case types.Uint32:
		return 32, false, true
	case types.Uint64, types.Uint, types.Uintptr:
		return 64, false, true
	}
	return 0, false, false
}

// zero returns the zero value of a type.
func (in *Interp) zero(t types.Type) Value {
	tb := in.tb
	switch u := t.Underlying().(type) {
	case *types.Basic:
		if u.Info()&types.IsBoolean != 0 {
			return tb.False
		}
		if u.Info()&types.IsString != 0 {
			return StrV{Mem: emptyMem, Off: tb.Int(0), Len: tb.Int(0), Max: 0}
		}
		if w, _, ok := intWidth(t); ok {
			return tb.Const(w, 0)
		}
		if u.Info()&types.IsFloat != 0 {
			return tb.FPConst(0)
		}
		if u.Kind() == types.UnsafePointer {
			return Ptr{}
		}
		if u.Kind() == types.UntypedNil {
			return nil
		}
		panic(fmt.Sprintf("zero: unsupported basic %v", u))
	case *types.Pointer:
		return Ptr{}
	case *types.Struct:
		f := make([]Value, u.NumFields())
		for i := range f {
			f[i] = in.zero(u.Field(i).Type())
		}
		return &StructV{F: f}
	case *types.Array:
		if isByteType(u.Elem()) {
			return zeroMem
		}
		e := make([]Value, u.Len())
		for i := range e {
			e[i] = in.zero(u.Elem())
		}
		return &ArrayV{E: e}
	case *types.Slice:
		return SliceV{Nil: true, Off: tb.Int(0), Len: tb.Int(0), Cap: tb.Int(0), Byte: isByteType(u.Elem()), Max: 0}
	case *types.Interface:
		return IfaceV{}
	case *types.Map:
		return MapV{}
	case *types.Signature:
		return (*FuncV)(nil)
	case *types.Chan:
		return ChanV{}
	case *types.Tuple:
		tv := make(TupleV, u.Len())
		for i := range tv {
			tv[i] = in.zero(u.At(i).Type())
		}
		return tv
	}
	panic(fmt.Sprintf("zero: unsupported type %v", t))
}

// getPath reads the sub-value of v at path.
func getPath(v Value, path []int) Value {
	for _, i := range path {
		switch x := v.(type) {
		case *StructV:
			v = x.F[i]
		case *ArrayV:
			v = x.E[i]
		default:
			panic(fmt.Sprintf("getPath: cannot index %T", v))
		}
	}
	return v
}

// setPath returns v with the sub-value at path replaced (persistent update).
func setPath(v Value, path []int, nv Value) Value {
	if len(path) == 0 {
		return nv
	}
	i := path[0]
	switch x := v.(type) {
	case *StructV:
		f := make([]Value, len(x.F))
		copy(f, x.F)
		f[i] = setPath(x.F[i], path[1:], nv)
		return &StructV{F: f}
	case *ArrayV:
		e := make([]Value, len(x.E))
		copy(e, x.E)
		e[i] = setPath(x.E[i], path[1:], nv)
		return &ArrayV{E: e}
	}
	panic(fmt.Sprintf("setPath: cannot index %T", v))
}

func (p Ptr) sub(i int) Ptr {
	np := make([]int, len(p.Path)+1)
	copy(np, p.Path)
	np[len(p.Path)] = i
	return Ptr{Obj: p.Obj, Path: np}
}

func samePath(a, b []int) bool {
	if len(a) != len(b) {
		return false
	}
	for i := range a {
		if a[i] != b[i] {
			return false
		}
	}
	return true
}

package gosym

import (
	"fmt"
	"go/types"
	"strings"

	"golang.org/x/tools/go/ssa"
)

func (in *Interp) doCall(fr *frame, c *ssa.CallCommon) Value {
	fnv, args := in.prepareCall(fr, c)
	return in.invokePrepared(fnv, args, c)
}

// prepareCall evaluates callee and arguments.
func (in *Interp) prepareCall(fr *frame, c *ssa.CallCommon) (Value, []Value) {
	args := make([]Value, 0, len(c.Args)+1)
	if c.IsInvoke() {
		recv := in.get(fr, c.Value)
		args = append(args, recv)
		for _, a := range c.Args {
			args = append(args, in.get(fr, a))
		}
		return nil, args
	}
	for _, a := range c.Args {
		args = append(args, in.get(fr, a))
	}
	return in.get(fr, c.Value), args
}

func (in *Interp) invokePrepared(fnv Value, args []Value, c *ssa.CallCommon) Value {
	if c.IsInvoke() {
		iv, ok := args[0].(IfaceV)
		if !ok {
			panic(fmt.Sprintf("invoke on %T", args[0]))
		}
		if iv.T == nil {
			in.reportViolation("panic", "nil interface method call "+c.Method.Name(), in.site(), nil)
			in.endPath("panic:nil iface")
		}
		if mo, ok := iv.V.(*ModelObj); ok {
			in.stats.Models[mo.Kind+"."+c.Method.Name()]++
			return in.modelMethod(mo, c.Method.Name(), args[1:])
		}
		fn := in.prog.LookupMethod(iv.T, c.Method.Pkg(), c.Method.Name())
		if fn == nil {
			panic(fmt.Sprintf("method %s not found on %v", c.Method.Name(), iv.T))
		}
		a := append([]Value{iv.V}, args[1:]...)
		return in.call(fn, a)
	}
	f := fnv.(*FuncV)
	if f != nil && f.Nat != "" && f.NatF == nil {
		return in.builtin(f.Nat, args, c)
	}
	return in.callClosure(f, args)
}

func (in *Interp) builtin(name string, args []Value, c *ssa.CallCommon) Value {
	tb := in.tb
	switch name {
	case "len":
		switch x := args[0].(type) {
		case StrV:
			return x.Len
		case SliceV:
			return x.Len
		case MapV:
			return tb.Int(int64(in.mapLen(x)))
		case *ArrayV:
			return tb.Int(int64(len(x.E)))
		case *ByteMem:
			return tb.Int(c.Args[0].Type().Underlying().(*types.Array).Len())
		case Ptr:
			return tb.Int(c.Args[0].Type().Underlying().(*types.Pointer).Elem().Underlying().(*types.Array).Len())
		case ChanV:
			return tb.Int(int64(in.chanLen(x)))
		}
	case "cap":
		switch x := args[0].(type) {
		case SliceV:
			return x.Cap
		case *ArrayV:
			return tb.Int(int64(len(x.E)))
		case ChanV:
			return tb.Int(0)
		}
	case "append":
		return in.appendOp(args[0].(SliceV), args[1], c.Args[0].Type())
	case "copy":
		return in.copyOp(args[0].(SliceV), args[1])
	case "delete":
		in.mapDelete(args[0].(MapV), args[1])
		return nil
	case "panic":
		in.explicitPanic(nil, args[0])
	case "print", "println":
		return nil
	case "recover":
		return IfaceV{}
	case "close":
		in.chanClose(args[0].(ChanV))
		return nil
	case "min", "max":
		r := args[0].(*Term)
		_, signed, _ := intWidth(c.Args[0].Type())
		for _, a := range args[1:] {
			y := a.(*Term)
			var lt *Term
			if signed {
				lt = tb.SLt(y, r)
			} else {
				lt = tb.ULt(y, r)
			}
			if name == "max" {
				var gt *Term
				if signed {
					gt = tb.SLt(r, y)
				} else {
					gt = tb.ULt(r, y)
				}
				r = tb.Ite(gt, y, r)
				continue
			}
			r = tb.Ite(lt, y, r)
		}
		return r
	case "clear":
		switch x := args[0].(type) {
		case MapV:
			if x.Obj != nil {
				x.Obj.Val = &MapData{}
			}
			return nil
		}
	case "ssa:wrapnilchk":
		p := args[0].(Ptr)
		if p.Obj == nil {
			in.nilDeref()
		}
		return p
	}
	panic(fmt.Sprintf("builtin %s on %T", name, args[0]))
}

func (in *Interp) appendOp(s SliceV, more Value, st types.Type) Value {
	tb := in.tb
	if s.Byte || isByteSliceType(st) {
		var src *ByteMem
		var soff, slen *Term
		smax := -1
		switch m := more.(type) {
		case SliceV:
			src, soff, slen, smax = in.sliceMem(m), m.Off, m.Len, m.Max
		case StrV:
			src, soff, slen, smax = m.Mem, m.Off, m.Len, m.Max
		default:
			panic(fmt.Sprintf("append of %T", more))
		}
		if slen.IsConst() && slen.V == 0 {
			if s.Nil {
				// append(nil, empty...) stays nil
				return s
			}
			return s
		}
		newLen := tb.Add(s.Len, slen)
		mx := -1
		if s.Max >= 0 && smax >= 0 {
			mx = s.Max + smax
		}
		// in place when it provably fits
		if s.Base.Obj != nil && s.Len.IsConst() && s.Cap.IsConst() && slen.IsConst() && newLen.V <= s.Cap.V {
			m := in.sliceMem(s)
			m = in.memCopy(m, tb.Add(s.Off, s.Len), src, soff, slen)
			s.Base.Obj.Val = setPath(s.Base.Obj.Val, s.Base.Path, m)
			return SliceV{Base: s.Base, Off: s.Off, Len: newLen, Cap: s.Cap, Byte: true, Max: mx}
		}
		// fresh backing store
		m := zeroMem
		if !(s.Len.IsConst() && s.Len.V == 0) {
			old := in.sliceMem(s)
			if s.Off.IsConst() && s.Off.V == 0 {
				m = old
			} else {
				m = in.memCopy(zeroMem, tb.Int(0), old, s.Off, s.Len)
			}
		}
		m = in.memCopy(m, s.Len, src, soff, slen)
		in.noteAlloc(newLen)
		o := in.newObj(m, nil, "append")
		return SliceV{Base: Ptr{Obj: o}, Off: tb.Int(0), Len: newLen, Cap: newLen, Byte: true, Max: mx}
	}
	// generic slices: concrete lengths
	ms := more.(SliceV)
	n1 := in.concretize(s.Len, "append len")
	n2 := in.concretize(ms.Len, "append len")
	if n2 == 0 {
		return s
	}
	elems := make([]Value, 0, n1+n2)
	if n1 > 0 {
		arr := getPath(s.Base.Obj.Val, s.Base.Path).(*ArrayV)
		o := int(s.Off.V)
		elems = append(elems, arr.E[o:o+n1]...)
	}
	arr2 := getPath(ms.Base.Obj.Val, ms.Base.Path).(*ArrayV)
	o2 := int(ms.Off.V)
	elems = append(elems, arr2.E[o2:o2+n2]...)
	// in place if capacity allows (aliasing semantics of Go)
	if s.Base.Obj != nil && s.Cap.IsConst() && uint64(n1+n2) <= s.Cap.V {
		arr := getPath(s.Base.Obj.Val, s.Base.Path).(*ArrayV)
		ne := make([]Value, len(arr.E))
		copy(ne, arr.E)
		copy(ne[int(s.Off.V)+n1:], elems[n1:])
		s.Base.Obj.Val = setPath(s.Base.Obj.Val, s.Base.Path, &ArrayV{E: ne})
		return SliceV{Base: s.Base, Off: s.Off, Len: tb.Int(int64(n1 + n2)), Cap: s.Cap, Max: n1 + n2}
	}
	o := in.newObj(&ArrayV{E: elems}, nil, "append")
	return SliceV{Base: Ptr{Obj: o}, Off: tb.Int(0), Len: tb.Int(int64(n1 + n2)), Cap: tb.Int(int64(n1 + n2)), Max: n1 + n2}
}

func isByteSliceType(t types.Type) bool {
	s, ok := t.Underlying().(*types.Slice)
	return ok && isByteType(s.Elem())
}

func (in *Interp) smin(a, b *Term) *Term {
	tb := in.tb
	c := tb.SLt(a, b)
	if c.IsConst() {
		if c.V == 1 {
			return a
		}
		return b
	}
	// both are lengths: if syntactically equal handled by SLt(a,a)=false
	return tb.Ite(c, a, b)
}

func (in *Interp) copyOp(dst SliceV, srcv Value) Value {
	tb := in.tb
	if dst.Byte {
		var src *ByteMem
		var soff, slen *Term
		switch m := srcv.(type) {
		case SliceV:
			src, soff, slen = in.sliceMem(m), m.Off, m.Len
		case StrV:
			src, soff, slen = m.Mem, m.Off, m.Len
		}
		n := in.smin(dst.Len, slen)
		if n.IsConst() && n.V == 0 {
			return n
		}
		if dst.Base.Obj == nil {
			return tb.Int(0)
		}
		m := in.sliceMem(dst)
		m = in.memCopy(m, dst.Off, src, soff, n)
		dst.Base.Obj.Val = setPath(dst.Base.Obj.Val, dst.Base.Path, m)
		return n
	}
	src := srcv.(SliceV)
	n1 := in.concretize(dst.Len, "copy len")
	n2 := in.concretize(src.Len, "copy len")
	n := n1
	if n2 < n {
		n = n2
	}
	if n == 0 {
		return tb.Int(0)
	}
	sa := getPath(src.Base.Obj.Val, src.Base.Path).(*ArrayV)
	da := getPath(dst.Base.Obj.Val, dst.Base.Path).(*ArrayV)
	ne := make([]Value, len(da.E))
	copy(ne, da.E)
	copy(ne[int(dst.Off.V):int(dst.Off.V)+n], sa.E[int(src.Off.V):int(src.Off.V)+n])
	dst.Base.Obj.Val = setPath(dst.Base.Obj.Val, dst.Base.Path, &ArrayV{E: ne})
	return tb.Int(int64(n))
}

// external handles functions without SSA bodies and without a model.
func (in *Interp) external(fn *ssa.Function, args []Value) Value {
	name := fn.String()
	if fn.Pkg != nil && fn.Pkg.Pkg.Path() == "sync/atomic" {
		// sequentially consistent atomics on the concrete heap
		n := fn.Name()
		tb := in.tb
		switch {
		case strings.HasPrefix(n, "Add"):
			p := args[0].(Ptr)
			nv := tb.Add(in.load(p).(*Term), args[1].(*Term))
			in.store(p, nv)
			return nv
		case strings.HasPrefix(n, "Load"):
			return in.load(args[0].(Ptr))
		case strings.HasPrefix(n, "Store"):
			in.store(args[0].(Ptr), args[1])
			return nil
		case strings.HasPrefix(n, "Swap"):
			p := args[0].(Ptr)
			old := in.load(p)
			in.store(p, args[1])
			return old
		case strings.HasPrefix(n, "CompareAndSwap"):
			p := args[0].(Ptr)
			old := in.load(p)
			eq := in.valEq(old, args[1])
			if in.branch(eq) {
				in.store(p, args[2])
				return tb.True
			}
			return tb.False
		case strings.HasPrefix(n, "And") || strings.HasPrefix(n, "Or"):
			p := args[0].(Ptr)
			old := in.load(p).(*Term)
			if strings.HasPrefix(n, "And") {
				in.store(p, tb.BAnd(old, args[1].(*Term)))
			} else {
				in.store(p, tb.BOr(old, args[1].(*Term)))
			}
			return old
		}
	}
	in.stats.Havocked[name]++
	if in.initDepth > 0 {
		return in.havocResult(fn)
	}
	panic("no model for external function " + name)
}

func (in *Interp) havocResult(fn *ssa.Function) Value {
	res := fn.Signature.Results()
	switch res.Len() {
	case 0:
		return nil
	case 1:
		return in.havoc(res.At(0).Type(), fn.Name())
	}
	tv := make(TupleV, res.Len())
	for i := range tv {
		tv[i] = in.havoc(res.At(i).Type(), fn.Name())
	}
	return tv
}

func (in *Interp) havoc(t types.Type, name string) Value {
	switch u := t.Underlying().(type) {
	case *types.Basic:
		if u.Info()&types.IsBoolean != 0 {
			return in.fresh("havoc_"+name, SBool)
		}
		if w, _, ok := intWidth(t); ok {
			return in.fresh("havoc_"+name, BV(w))
		}
	}
	return in.zero(t)
}

func (in *Interp) noteAssumption(s string) {
	for _, a := range in.stats.Assumptions {
		if a == s {
			return
		}
	}
	in.stats.Assumptions = append(in.stats.Assumptions, s)
}

// ---- goroutines / channels (sequentialised model) -------------------------

type chanData struct {
	buf    []Value
	closed bool
}

func (in *Interp) goStmt(fr *frame, x *ssa.Go) {
	// Deferred execution: run the goroutine body to completion immediately
	// (sequential schedule). Harnesses needing other schedules use vSpawn.
	fnv, args := in.prepareCall(fr, &x.Call)
	in.noteAssumption("go statements run to completion at the spawn point (one sequential schedule)")
	in.invokePrepared(fnv, args, &x.Call)
}

func (in *Interp) chanSend(c ChanV, v Value) {
	cd := c.Obj.Val.(*chanData)
	cd.buf = append(cd.buf, v)
}

func (in *Interp) chanRecv(c ChanV, commaOk bool, t types.Type) Value {
	tb := in.tb
	if c.Obj == nil {
		in.endPath("blocked:nil chan recv")
	}
	cd := c.Obj.Val.(*chanData)
	if len(cd.buf) == 0 {
		if cd.closed {
			var z Value
			if commaOk {
				z = in.zero(t.(*types.Tuple).At(0).Type())
				return TupleV{z, tb.False}
			}
			return in.zero(t)
		}
		in.endPath("blocked:chan recv")
	}
	v := cd.buf[0]
	cd.buf = cd.buf[1:]
	if commaOk {
		return TupleV{v, tb.True}
	}
	return v
}

func (in *Interp) chanLen(c ChanV) int {
	if c.Obj == nil {
		return 0
	}
	return len(c.Obj.Val.(*chanData).buf)
}

func (in *Interp) chanClose(c ChanV) {
	c.Obj.Val.(*chanData).closed = true
}

func (in *Interp) selectStmt(fr *frame, x *ssa.Select) Value {
	tb := in.tb
	// ready cases
	var ready []int
	for i, st := range x.States {
		ch := in.get(fr, st.Chan).(ChanV)
		if ch.Obj == nil {
			continue
		}
		cd := ch.Obj.Val.(*chanData)
		if st.Dir == types.RecvOnly {
			if len(cd.buf) > 0 || cd.closed {
				ready = append(ready, i)
			}
		} else {
			ready = append(ready, i)
		}
	}
	nres := 2
	for _, st := range x.States {
		if st.Dir == types.RecvOnly {
			nres++
		}
	}
	mk := func(idx int, recvOk bool, recvVal Value) Value {
		tv := make(TupleV, 0, nres)
		tv = append(tv, tb.Int(int64(idx)), tb.Bool(recvOk))
		for i, st := range x.States {
			if st.Dir != types.RecvOnly {
				continue
			}
			et := st.Chan.Type().Underlying().(*types.Chan).Elem()
			if i == idx && recvVal != nil {
				tv = append(tv, recvVal)
			} else {
				tv = append(tv, in.zero(et))
			}
		}
		return tv
	}
	if len(ready) == 0 {
		if !x.Blocking {
			return mk(-1, false, nil)
		}
		in.endPath("blocked:select")
	}
	pick := ready[0]
	if len(ready) > 1 {
		k := in.choose(len(ready), func(i int) *Term { return tb.True })
		pick = ready[k]
	}
	st := x.States[pick]
	ch := in.get(fr, st.Chan).(ChanV)
	cd := ch.Obj.Val.(*chanData)
	if st.Dir == types.RecvOnly {
		if len(cd.buf) > 0 {
			v := cd.buf[0]
			cd.buf = cd.buf[1:]
			return mk(pick, true, v)
		}
		return mk(pick, false, nil)
	}
	cd.buf = append(cd.buf, in.get(fr, st.Send))
	return mk(pick, false, nil)
}

func shortName(fn *ssa.Function) string {
	s := fn.String()
	if i := strings.LastIndex(s, "/"); i >= 0 {
		return s[i+1:]
	}
	return s
}

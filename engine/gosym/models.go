package gosym

import (
	"crypto/hmac"
	"crypto/sha256"
	"fmt"
	"go/types"
	"math"
	"strings"

	"golang.org/x/tools/go/ssa"
)

func f64bits(f float64) uint64 { return math.Float64bits(f) }

// ---- ghost state ----------------------------------------------------------

type sealRec struct {
	id     int
	key    []*Term // 32 key bytes
	nonce  []*Term
	aad    []*Term
	ptMem  *ByteMem
	ptOff  *Term
	ptLen  *Term
	ctArr  *Term
	ctLen  *Term
	ctObj  *Obj
}

type Ghost struct {
	seals   []*sealRec
	opens   []openRec
	counts  map[string]int
	ints    map[string]*Term
	hashes  []*hashState
	rand    []*Obj
	randArrs []*Term
	lastOpen int
}

type openRec struct {
	matched int // seal id or -1
}

func newGhost() *Ghost { return &Ghost{counts: map[string]int{}, ints: map[string]*Term{}, lastOpen: -2} }

func (g *Ghost) count(k string) int { return g.counts[k] }

var ghostIntrinsics = map[string]func(in *Interp, args []Value) Value{}

// ---- model types ------------------------------------------------------------

func (in *Interp) modelType(name string) types.Type {
	if t, ok := in.modelTypes[name]; ok {
		return t
	}
	tn := types.NewTypeName(0, nil, "model."+name, nil)
	t := types.NewNamed(tn, types.NewStruct(nil, nil), nil)
	in.modelTypes[name] = t
	return t
}

func (in *Interp) newModel(kind string, data any) *ModelObj {
	in.nextObj++
	return &ModelObj{Kind: kind, Data: data, ID: in.nextObj}
}

func (in *Interp) modelIface(kind string, data any) IfaceV {
	return IfaceV{T: in.modelType(kind), V: in.newModel(kind, data)}
}

func modelImplements(mo *ModelObj, it *types.Interface) bool {
	// model objects implement exactly the interfaces whose methods they model
	for i := 0; i < it.NumMethods(); i++ {
		if !modelHasMethod(mo.Kind, it.Method(i).Name()) {
			return false
		}
	}
	return true
}

func modelHasMethod(kind, m string) bool {
	switch kind {
	case "error":
		return m == "Error" || m == "Unwrap"
	case "hash":
		return m == "Write" || m == "Sum" || m == "Reset" || m == "Size" || m == "BlockSize"
	case "hkdf":
		return m == "Read"
	case "aead":
		return m == "Seal" || m == "Open" || m == "NonceSize" || m == "Overhead"
	case "block":
		return m == "BlockSize" || m == "Encrypt" || m == "Decrypt"
	case "ecdhcurve":
		return m == "GenerateKey"
	case "fileinfo":
		return m == "Mode" || m == "IsDir" || m == "Name" || m == "Size" || m == "Sys" || m == "ModTime"
	case "direntry":
		return m == "Name" || m == "IsDir" || m == "Type" || m == "Info"
	}
	return false
}

// ---- errors -------------------------------------------------------------------

type errData struct {
	msg   string
	wraps []IfaceV
	tag   string
}

func (in *Interp) newError(msg string, wraps ...IfaceV) IfaceV {
	return in.modelIface("error", &errData{msg: msg, wraps: wraps})
}

func (in *Interp) errorIs(e IfaceV, target IfaceV) bool {
	if e.T == nil {
		return false
	}
	if in.valEq(e, target).IsTrue() {
		return true
	}
	if mo, ok := e.V.(*ModelObj); ok {
		if mo.Kind == "error" {
			for _, w := range mo.Data.(*errData).wraps {
				if in.errorIs(w, target) {
					return true
				}
			}
		}
		return false
	}
	if um := in.prog.LookupMethod(e.T, nil, "Unwrap"); um != nil && um.Signature.Results().Len() == 1 {
		if r, ok := in.call(um, []Value{e.V}).(IfaceV); ok {
			return in.errorIs(r, target)
		}
	}
	return false
}

// ---- hash ------------------------------------------------------------------------

type hashChunk struct {
	mem      *ByteMem
	off, len *Term
}

type hashState struct {
	chunks []hashChunk
	id     int
}

func (in *Interp) hashInput(h *hashState) (*ByteMem, *Term) {
	tb := in.tb
	m := zeroMem
	n := tb.Int(0)
	for _, c := range h.chunks {
		m = in.memCopy(m, n, c.mem, c.off, c.len)
		n = tb.Add(n, c.len)
	}
	return m, n
}

type sumRec struct {
	chunks []hashChunk
	arr    *Term
}

func sameChunks(a, b []hashChunk) bool {
	if len(a) != len(b) {
		return false
	}
	for i := range a {
		if a[i].mem != b[i].mem || a[i].off != b[i].off || a[i].len != b[i].len {
			return false
		}
	}
	return true
}

// ---- method dispatch on model objects -------------------------------------------

func (in *Interp) modelMethod(mo *ModelObj, name string, args []Value) Value {
	tb := in.tb
	switch mo.Kind {
	case "fileinfo":
		return in.fsFileInfoMethod(mo.Data.(*fsInfo), name, args)
	case "direntry":
		de := mo.Data.(*fsDirent)
		switch name {
		case "Name":
			return de.name
		case "IsDir":
			return tb.Bool(de.node.kind == fsDir)
		}
		panic("DirEntry." + name + " not modelled")
	case "ecdhcurve":
		if name == "GenerateKey" {
			in.ghost.counts["ecdhkey"]++
			key := in.newModel("ecdhpriv", in.ghost.counts["ecdhkey"])
			return TupleV{Ptr{Obj: in.newObj(key, nil, "ecdhpriv")}, IfaceV{}}
		}
	case "error":
		ed := mo.Data.(*errData)
		switch name {
		case "Error":
			return in.strConst(ed.msg)
		case "Unwrap":
			if len(ed.wraps) > 0 {
				return ed.wraps[0]
			}
			return IfaceV{}
		}
	case "hash":
		h := mo.Data.(*hashState)
		switch name {
		case "Write":
			s := args[0].(SliceV)
			h.chunks = append(h.chunks, hashChunk{in.sliceMem(s), s.Off, s.Len})
			return TupleV{s.Len, IfaceV{}}
		case "Reset":
			h.chunks = nil
			return nil
		case "Size":
			return tb.Int(32)
		case "BlockSize":
			return tb.Int(64)
		case "Sum":
			pre := args[0].(SliceV)
			if !(pre.Len.IsConst() && pre.Len.V == 0) {
				panic("hash.Sum with non-empty prefix unsupported")
			}
			var arr *Term
			for _, r := range in.sums {
				if sameChunks(r.chunks, h.chunks) {
					arr = r.arr
				}
			}
			if arr == nil {
				arr = in.fresh("digest", SArr)
				in.sums = append(in.sums, sumRec{append([]hashChunk{}, h.chunks...), arr})
			}
			o := in.newObj(symMem(arr), nil, "digest")
			return SliceV{Base: Ptr{Obj: o}, Off: tb.Int(0), Len: tb.Int(32), Cap: tb.Int(32), Byte: true, Max: 32}
		}
	case "hkdf":
		if name == "Read" {
			st := mo.Data.(*hkdfState)
			p := args[0].(SliceV)
			if !p.Len.IsConst() {
				panic("hkdf Read into a buffer of symbolic length")
			}
			n := int(p.Len.V)
			out := st.next(n)
			src := in.newObj(constMem(out), nil, "hkdf-out")
			in.copyOp(p, SliceV{Base: Ptr{Obj: src}, Off: tb.Int(0), Len: tb.Int(int64(n)), Cap: tb.Int(int64(n)), Byte: true, Max: n})
			return TupleV{tb.Int(int64(n)), IfaceV{}}
		}
	case "block":
		switch name {
		case "BlockSize":
			return tb.Int(16)
		}
	case "aead":
		switch name {
		case "NonceSize":
			return tb.Int(int64(mo.Data.(*aeadData).nonceSize))
		case "Overhead":
			return tb.Int(16)
		case "Seal":
			return in.aeadSeal(mo.Data.(*aeadData), args)
		case "Open":
			return in.aeadOpen(mo.Data.(*aeadData), args)
		}
	}
	panic("model method " + mo.Kind + "." + name + " not implemented")
}

type aeadData struct {
	key       []*Term
	nonceSize int
}

func (in *Interp) sliceBytes(s SliceV, n int) []*Term {
	m := in.sliceMem(s)
	out := make([]*Term, n)
	for i := 0; i < n; i++ {
		out[i] = in.memRead(m, in.tb.Add(s.Off, in.tb.Int(int64(i))))
	}
	return out
}

func (in *Interp) bytesEqTerms(a, b []*Term) *Term {
	if len(a) != len(b) {
		return in.tb.False
	}
	cs := make([]*Term, len(a))
	for i := range a {
		cs[i] = in.tb.Eq(a[i], b[i])
	}
	return in.tb.And(cs...)
}

func (in *Interp) aeadSeal(ad *aeadData, args []Value) Value {
	tb := in.tb
	dst, nonce, pt, aad := args[0].(SliceV), args[1].(SliceV), args[2].(SliceV), args[3].(SliceV)
	if !(dst.Len.IsConst() && dst.Len.V == 0) {
		panic("AEAD.Seal with non-empty dst unsupported")
	}
	if !nonce.Len.IsConst() || !aad.Len.IsConst() {
		panic("AEAD.Seal: symbolic nonce/aad length")
	}
	if int(nonce.Len.V) != ad.nonceSize {
		in.reportViolation("panic", "cipher: incorrect nonce length given to GCM", in.site(), nil)
		in.endPath("panic:nonce")
	}
	rec := &sealRec{id: len(in.ghost.seals), key: ad.key,
		nonce: in.sliceBytes(nonce, int(nonce.Len.V)),
		aad:   in.sliceBytes(aad, int(aad.Len.V)),
		ptMem: in.sliceMem(pt), ptOff: pt.Off, ptLen: pt.Len}
	rec.ctArr = in.fresh("ct", SArr)
	rec.ctLen = tb.Add(pt.Len, tb.Int(16))
	rec.ctObj = in.newObj(symMem(rec.ctArr), nil, "ciphertext")
	in.ghost.seals = append(in.ghost.seals, rec)
	in.ghost.counts["seal"]++
	in.event("seal #%d", rec.id)
	return SliceV{Base: Ptr{Obj: rec.ctObj}, Off: tb.Int(0), Len: rec.ctLen, Cap: rec.ctLen, Byte: true, Max: -1}
}

func (in *Interp) aeadOpen(ad *aeadData, args []Value) Value {
	tb := in.tb
	dst, nonce, ct, aad := args[0].(SliceV), args[1].(SliceV), args[2].(SliceV), args[3].(SliceV)
	if !(dst.Len.IsConst() && dst.Len.V == 0) {
		panic("AEAD.Open with non-empty dst unsupported")
	}
	if !nonce.Len.IsConst() || !aad.Len.IsConst() {
		panic("AEAD.Open: symbolic nonce/aad length")
	}
	in.ghost.counts["open"]++
	nb := in.sliceBytes(nonce, int(nonce.Len.V))
	ab := in.sliceBytes(aad, int(aad.Len.V))
	ctMem := in.sliceMem(ct)
	type cand struct {
		rec     *sealRec
		meta    *Term // key, nonce, aad, length all equal
		content *Term // nil: proven equal whenever meta holds; else skolem disequality witness
		proven  bool
	}
	var cands []cand
	for _, r := range in.ghost.seals {
		meta := tb.And(in.bytesEqTerms(r.key, ad.key), in.bytesEqTerms(r.nonce, nb), in.bytesEqTerms(r.aad, ab), tb.Eq(r.ctLen, ct.Len))
		if meta.IsFalse() {
			continue
		}
		k := in.fresh(fmt.Sprintf("open_k%d", r.id), BV(64))
		inr := tb.And(tb.SLe(tb.Int(0), k), tb.SLt(k, ct.Len))
		diff := tb.And(inr, tb.Ne(in.memRead(ctMem, tb.Add(ct.Off, k)), tb.Select(r.ctArr, k)))
		c := cand{rec: r, meta: meta, content: diff}
		cands = append(cands, c)
	}
	// decide, per candidate, whether content equality is implied by meta on this path
	for i := range cands {
		c := &cands[i]
		ch := in.decide(func() []int {
			if in.check(c.meta, c.content) == Unsat {
				return []int{1}
			}
			return []int{0}
		})
		c.proven = ch == 1
	}
	// alternatives: candidate i succeeds, or failure
	n := len(cands)
	ch := in.choose(n+1, func(i int) *Term {
		if i < n {
			return cands[i].meta
		}
		cs := []*Term{}
		for _, c := range cands {
			if c.proven {
				cs = append(cs, tb.Not(c.meta))
			} else {
				cs = append(cs, tb.Or(tb.Not(c.meta), c.content))
			}
		}
		return tb.And(cs...)
	})
	if ch == n {
		in.ghost.lastOpen = -1
		in.event("open failed")
		return TupleV{SliceV{Nil: true, Off: tb.Int(0), Len: tb.Int(0), Cap: tb.Int(0), Byte: true, Max: 0},
			in.newError("cipher: message authentication failed")}
	}
	c := cands[ch]
	if !c.proven {
		in.noteAssumption("AEAD.Open success branch: ciphertext assumed equal to the sealed one (ideal INT-CTXT)")
	}
	in.ghost.lastOpen = c.rec.id
	in.event("open ok seal #%d", c.rec.id)
	m := in.memCopy(zeroMem, tb.Int(0), c.rec.ptMem, c.rec.ptOff, c.rec.ptLen)
	o := in.newObj(m, nil, "plaintext")
	return TupleV{SliceV{Base: Ptr{Obj: o}, Off: tb.Int(0), Len: c.rec.ptLen, Cap: c.rec.ptLen, Byte: true, Max: -1}, IfaceV{}}
}

// ---- native function registry -------------------------------------------------------

func nop(in *Interp, fn *ssa.Function, args []Value) Value { return in.zeroResults(fn) }

func (in *Interp) zeroResults(fn *ssa.Function) Value {
	res := fn.Signature.Results()
	switch res.Len() {
	case 0:
		return nil
	case 1:
		return in.zero(res.At(0).Type())
	}
	tv := make(TupleV, res.Len())
	for i := range tv {
		tv[i] = in.zero(res.At(i).Type())
	}
	return tv
}

func (in *Interp) fmtMessage(args []Value) (string, []IfaceV) {
	format, ok := in.concreteStr(args[0].(StrV))
	if !ok {
		format = "<symbolic format>"
	}
	var wraps []IfaceV
	if len(args) > 1 {
		if va, ok := args[1].(SliceV); ok && !va.Nil && va.Base.Obj != nil {
			arr := getPath(va.Base.Obj.Val, va.Base.Path).(*ArrayV)
			n := int(va.Len.V)
			for _, e := range arr.E[int(va.Off.V) : int(va.Off.V)+n] {
				if iv, ok := e.(IfaceV); ok && iv.T != nil {
					if mo, ok := iv.V.(*ModelObj); ok && mo.Kind == "error" {
						wraps = append(wraps, iv)
					} else if types.Implements(iv.T, errorIface) {
						wraps = append(wraps, iv)
					}
				}
			}
		}
	}
	return format, wraps
}

var errorIface = types.Universe.Lookup("error").Type().Underlying().(*types.Interface)

func registerNatives(in *Interp) {
	n := in.natives
	tbf := func() *TB { return in.tb }
	_ = tbf
	n["fmt.Errorf"] = func(in *Interp, fn *ssa.Function, args []Value) Value {
		msg, wraps := in.fmtMessage(args)
		if !strings.Contains(msg, "%w") {
			wraps = nil
		}
		return in.newError(msg, wraps...)
	}
	n["errors.New"] = func(in *Interp, fn *ssa.Function, args []Value) Value {
		s, _ := in.concreteStr(args[0].(StrV))
		return in.newError(s)
	}
	n["errors.Is"] = func(in *Interp, fn *ssa.Function, args []Value) Value {
		return in.tb.Bool(in.errorIs(args[0].(IfaceV), args[1].(IfaceV)))
	}
	pkgWrap := func(in *Interp, fn *ssa.Function, args []Value) Value {
		cause := args[0].(IfaceV)
		if cause.T == nil {
			return IfaceV{}
		}
		return in.newError("wrapped", cause)
	}
	n["github.com/pkg/errors.Wrap"] = pkgWrap
	n["github.com/pkg/errors.Wrapf"] = pkgWrap
	n["github.com/pkg/errors.WithStack"] = pkgWrap
	n["github.com/pkg/errors.WithMessage"] = pkgWrap
	n["github.com/pkg/errors.New"] = func(in *Interp, fn *ssa.Function, args []Value) Value { return in.newError("pkg error") }
	n["github.com/pkg/errors.Errorf"] = func(in *Interp, fn *ssa.Function, args []Value) Value { return in.newError("pkg error") }
	n["github.com/pkg/errors.Cause"] = func(in *Interp, fn *ssa.Function, args []Value) Value {
		e := args[0].(IfaceV)
		for i := 0; i < 8; i++ {
			mo, ok := e.V.(*ModelObj)
			if !ok || mo.Kind != "error" || len(mo.Data.(*errData).wraps) == 0 {
				break
			}
			e = mo.Data.(*errData).wraps[0]
		}
		return e
	}
	n["errors.As"] = func(in *Interp, fn *ssa.Function, args []Value) Value {
		e := args[0].(IfaceV)
		tgt := args[1].(IfaceV)
		pt, ok := tgt.T.Underlying().(*types.Pointer)
		if !ok {
			panic("errors.As: target is not a pointer")
		}
		want := pt.Elem()
		for depth := 0; depth < 8 && e.T != nil; depth++ {
			if it, isI := want.Underlying().(*types.Interface); isI {
				if in.implements(e, it) {
					in.store(tgt.V.(Ptr), e)
					return in.tb.True
				}
			} else if _, isM := e.V.(*ModelObj); !isM && types.Identical(e.T, want) {
				in.store(tgt.V.(Ptr), e.V)
				return in.tb.True
			}
			// unwrap
			if mo, ok := e.V.(*ModelObj); ok {
				if mo.Kind != "error" || len(mo.Data.(*errData).wraps) == 0 {
					break
				}
				e = mo.Data.(*errData).wraps[0]
				continue
			}
			um := in.prog.LookupMethod(e.T, nil, "Unwrap")
			if um == nil || um.Signature.Results().Len() != 1 {
				break
			}
			r, ok := in.call(um, []Value{e.V}).(IfaceV)
			if !ok {
				break
			}
			e = r
		}
		return in.tb.False
	}
	n["errors.Unwrap"] = func(in *Interp, fn *ssa.Function, args []Value) Value {
		e := args[0].(IfaceV)
		if mo, ok := e.V.(*ModelObj); ok && mo.Kind == "error" {
			if w := mo.Data.(*errData).wraps; len(w) > 0 {
				return w[0]
			}
		}
		return IfaceV{}
	}
	n["fmt.Sprintf"] = nativeSprintf
	n["fmt.Sprint"] = func(in *Interp, fn *ssa.Function, args []Value) Value { return in.strConst("<sprint>") }
	for _, f := range []string{"fmt.Printf", "fmt.Println", "fmt.Print", "fmt.Fprintf", "fmt.Fprintln", "log.Printf", "log.Println"} {
		n[f] = nop
	}
	for _, f := range []string{"(*sync.Mutex).Lock", "(*sync.Mutex).Unlock", "(*sync.RWMutex).Lock", "(*sync.RWMutex).Unlock",
		"(*sync.RWMutex).RLock", "(*sync.RWMutex).RUnlock", "(*sync.WaitGroup).Add", "(*sync.WaitGroup).Done", "(*sync.WaitGroup).Wait"} {
		n[f] = nop
	}
	n["(*sync/atomic.Value).Load"] = func(in *Interp, fn *ssa.Function, args []Value) Value {
		return in.load(args[0].(Ptr).sub(0))
	}
	n["(*sync/atomic.Value).Store"] = func(in *Interp, fn *ssa.Function, args []Value) Value {
		in.store(args[0].(Ptr).sub(0), args[1])
		return nil
	}
	n["(*sync/atomic.Value).Swap"] = func(in *Interp, fn *ssa.Function, args []Value) Value {
		p := args[0].(Ptr).sub(0)
		old := in.load(p)
		in.store(p, args[1])
		return old
	}
	n["(*sync/atomic.Value).CompareAndSwap"] = func(in *Interp, fn *ssa.Function, args []Value) Value {
		p := args[0].(Ptr).sub(0)
		eq := in.valEq(in.load(p), args[1])
		if in.branch(eq) {
			in.store(p, args[2])
			return in.tb.True
		}
		return in.tb.False
	}
	n["(*sync.Mutex).TryLock"] = func(in *Interp, fn *ssa.Function, args []Value) Value { return in.tb.True }
	// sync.Once runs from its own source (an atomic flag and a mutex)
	// slog: every function and method is a no-op
	n["crypto/sha256.New"] = func(in *Interp, fn *ssa.Function, args []Value) Value {
		h := &hashState{}
		in.ghost.hashes = append(in.ghost.hashes, h)
		h.id = len(in.ghost.hashes)
		return in.modelIface("hash", h)
	}
	// HKDF (golang.org/x/crypto/hkdf) over concrete secret, salt and info: the real
	// HKDF-SHA256 output, computed here with the standard library (the hash argument is
	// taken to be SHA-256, the only one cedar passes). Symbolic inputs are inconclusive.
	n["golang.org/x/crypto/hkdf.New"] = func(in *Interp, fn *ssa.Function, args []Value) Value {
		get := func(v Value, what string) []byte {
			sv := v.(SliceV)
			if sv.Nil || (sv.Len.IsConst() && sv.Len.V == 0) {
				return nil
			}
			str, ok := in.concreteStr(in.bytesToStr(sv))
			if !ok {
				panic("hkdf.New: symbolic " + what + " is not modelled")
			}
			return []byte(str)
		}
		st := newHKDF(get(args[1], "secret"), get(args[2], "salt"), get(args[3], "info"))
		in.noteAssumption("hkdf.New with concrete inputs yields the real HKDF-SHA256 stream")
		return in.modelIface("hkdf", st)
	}
	n["crypto/aes.NewCipher"] = func(in *Interp, fn *ssa.Function, args []Value) Value {
		k := args[0].(SliceV)
		if !k.Len.IsConst() {
			panic("aes.NewCipher: symbolic key length")
		}
		if k.Len.V != 16 && k.Len.V != 24 && k.Len.V != 32 {
			return TupleV{IfaceV{}, in.newError("crypto/aes: invalid key size")}
		}
		return TupleV{in.modelIface("block", in.sliceBytes(k, int(k.Len.V))), IfaceV{}}
	}
	n["crypto/cipher.NewGCMWithNonceSize"] = func(in *Interp, fn *ssa.Function, args []Value) Value {
		b := args[0].(IfaceV).V.(*ModelObj)
		sz := args[1].(*Term)
		return TupleV{in.modelIface("aead", &aeadData{key: b.Data.([]*Term), nonceSize: int(sz.V)}), IfaceV{}}
	}
	n["crypto/cipher.NewGCM"] = func(in *Interp, fn *ssa.Function, args []Value) Value {
		b := args[0].(IfaceV).V.(*ModelObj)
		return TupleV{in.modelIface("aead", &aeadData{key: b.Data.([]*Term), nonceSize: 12}), IfaceV{}}
	}
	n["crypto/rand.Read"] = func(in *Interp, fn *ssa.Function, args []Value) Value {
		s := args[0].(SliceV)
		arr := in.fresh("rand", SArr)
		if s.Base.Obj != nil {
			m := in.sliceMem(s)
			m = in.memCopy(m, s.Off, symMem(arr), in.tb.Int(0), s.Len)
			s.Base.Obj.Val = setPath(s.Base.Obj.Val, s.Base.Path, m)
		}
		in.ghost.counts["rand"]++
		in.ghost.randArrs = append(in.ghost.randArrs, arr)
		in.event("rand %s", arr.N)
		return TupleV{s.Len, IfaceV{}}
	}
	n["bytes.IndexByte"] = func(in *Interp, fn *ssa.Function, args []Value) Value {
		s := args[0].(SliceV)
		return in.indexByte(in.sliceMem(s), s.Off, s.Len, s.Max, args[1].(*Term))
	}
	n["strings.IndexByte"] = func(in *Interp, fn *ssa.Function, args []Value) Value {
		s := args[0].(StrV)
		return in.indexByte(s.Mem, s.Off, s.Len, s.Max, args[1].(*Term))
	}
	n["internal/bytealg.IndexByte"] = n["bytes.IndexByte"]
	n["internal/bytealg.IndexByteString"] = n["strings.IndexByte"]
	n["bytes.Equal"] = func(in *Interp, fn *ssa.Function, args []Value) Value {
		return in.strEq(in.bytesToStr(args[0].(SliceV)), in.bytesToStr(args[1].(SliceV)))
	}
	// constant-time comparisons are compiler intrinsics in recent Go releases; their
	// result is byte equality (timing is not modelled)
	n["crypto/hmac.Equal"] = n["bytes.Equal"]
	n["crypto/subtle.ConstantTimeCompare"] = func(in *Interp, fn *ssa.Function, args []Value) Value {
		eq := in.strEq(in.bytesToStr(args[0].(SliceV)), in.bytesToStr(args[1].(SliceV)))
		return in.tb.Ite(eq, in.tb.Int(1), in.tb.Int(0))
	}
	n["(*bytes.Buffer).Write"] = func(in *Interp, fn *ssa.Function, args []Value) Value {
		s := args[1].(SliceV)
		in.bufferAppend(args[0].(Ptr), in.sliceMem(s), s.Off, s.Len, s.Max)
		return TupleV{s.Len, IfaceV{}}
	}
	n["(*bytes.Buffer).WriteString"] = func(in *Interp, fn *ssa.Function, args []Value) Value {
		s := args[1].(StrV)
		in.bufferAppend(args[0].(Ptr), s.Mem, s.Off, s.Len, s.Max)
		return TupleV{s.Len, IfaceV{}}
	}
	n["(*bytes.Buffer).WriteByte"] = func(in *Interp, fn *ssa.Function, args []Value) Value {
		m := in.memStore(zeroMem, in.tb.Int(0), args[1].(*Term))
		in.bufferAppend(args[0].(Ptr), m, in.tb.Int(0), in.tb.Int(1), 1)
		return IfaceV{}
	}
	// Grow(n) reserves n bytes: it is an allocation of that size (so a reservation
	// sized from a peer-announced length meets the allocation limit like a make
	// does) and panics for a negative or absurd count as the library does
	n["(*bytes.Buffer).Grow"] = func(in *Interp, fn *ssa.Function, args []Value) Value {
		cnt := args[1].(*Term)
		in.mustHold(in.tb.And(in.tb.SLe(in.tb.Int(0), cnt), in.tb.SLe(cnt, in.tb.Int(1<<40))), "panic", "bytes.Buffer.Grow: negative or too large count")
		in.noteAlloc(cnt)
		return nil
	}
	n["encoding/binary.Write"] = func(in *Interp, fn *ssa.Function, args []Value) Value {
		w := args[0].(IfaceV)
		order := args[1].(IfaceV)
		data := args[2].(IfaceV)
		big := strings.Contains(order.T.String(), "bigEndian")
		t, ok := data.V.(*Term)
		if !ok || t.S.K != KBV {
			panic("binary.Write: unsupported data type " + data.T.String())
		}
		nb := t.S.W / 8
		m := zeroMem
		for i := 0; i < nb; i++ {
			sh := i
			if big {
				sh = nb - 1 - i
			}
			m = in.memStore(m, in.tb.Int(int64(i)), in.tb.Extract(sh*8+7, sh*8, t))
		}
		o := in.newObj(m, nil, "binary.Write")
		sl := SliceV{Base: Ptr{Obj: o}, Off: in.tb.Int(0), Len: in.tb.Int(int64(nb)), Cap: in.tb.Int(int64(nb)), Byte: true, Max: nb}
		// w.Write(sl)
		fnW := in.prog.LookupMethod(w.T, nil, "Write")
		if fnW == nil {
			panic("binary.Write: writer has no Write")
		}
		r := in.call(fnW, []Value{w.V, sl}).(TupleV)
		return r[1]
	}
	n["math.Float64bits"] = func(in *Interp, fn *ssa.Function, args []Value) Value {
		f := args[0].(*Term)
		if f.Op == OFPConst {
			return in.tb.Const(64, f.V)
		}
		if f.Op == ORaw && f.N == "(_ to_fp 11 53)" && len(f.A) == 1 {
			return f.A[0]
		}
		return in.tb.Raw("fp.to_ieee_bv", BV(64), f)
	}
	n["math.Float64frombits"] = func(in *Interp, fn *ssa.Function, args []Value) Value {
		b := args[0].(*Term)
		if b.IsConst() {
			return in.tb.FPConst(b.V)
		}
		return in.tb.Raw("(_ to_fp 11 53)", SFP, b)
	}
	n["context.Background"] = nil
	delete(n, "context.Background")
	registerStringNatives(in)
	registerStrNatives(in)
	registerClassAdNatives(in)
	registerTimeNatives(in)
	registerPathNatives(in)
	registerLocksetNatives(in)
	registerFSNatives(in)
	registerNetipNatives(in)
}

// bufferAppend implements the write side of bytes.Buffer on its real fields.
func (in *Interp) bufferAppend(recv Ptr, src *ByteMem, soff, slen *Term, smax int) {
	tb := in.tb
	if recv.Obj == nil {
		in.nilDeref()
	}
	sv := in.load(recv).(*StructV)
	buf := sv.F[0].(SliceV)
	off := sv.F[1].(*Term)
	unread := tb.Sub(buf.Len, off)
	var m *ByteMem
	if unread.IsConst() && unread.V == 0 {
		m = zeroMem
	} else {
		old := in.sliceMem(buf)
		start := tb.Add(buf.Off, off)
		if start.IsConst() && start.V == 0 {
			m = old
		} else {
			m = in.memCopy(zeroMem, tb.Int(0), old, start, unread)
		}
	}
	m = in.memCopy(m, unread, src, soff, slen)
	newLen := tb.Add(unread, slen)
	in.noteAlloc(newLen)
	mx := -1
	if buf.Max >= 0 && smax >= 0 {
		mx = buf.Max + smax
	}
	o := in.newObj(m, nil, "buffer")
	f := make([]Value, len(sv.F))
	copy(f, sv.F)
	f[0] = SliceV{Base: Ptr{Obj: o}, Off: tb.Int(0), Len: newLen, Cap: newLen, Byte: true, Max: mx}
	f[1] = tb.Int(0)
	f[2] = tb.Const(8, 0)
	in.store(recv, &StructV{F: f})
}

// indexByte returns the index of the first occurrence of c, or -1 (bounded by max).
func (in *Interp) indexByte(m *ByteMem, off, ln *Term, max int, c *Term) Value {
	tb := in.tb
	if ln.IsConst() {
		max = int(ln.V)
	}
	if max < 0 {
		panic("IndexByte over a byte sequence without static bound")
	}
	res := tb.Int(-1)
	for i := max - 1; i >= 0; i-- {
		ii := tb.Int(int64(i))
		hit := tb.And(tb.SLt(ii, ln), tb.Eq(in.memRead(m, tb.Add(off, ii)), c))
		res = tb.Ite(hit, ii, res)
	}
	return res
}

func nativeSprintf(in *Interp, fn *ssa.Function, args []Value) Value {
	return in.sprintf(args)
}

// hkdfState is RFC 5869 HKDF-SHA256 (extract, then expand on demand).
type hkdfState struct {
	prk, info, prev, buf []byte
	ctr                  byte
}

func newHKDF(secret, salt, info []byte) *hkdfState {
	if salt == nil {
		salt = make([]byte, sha256.Size)
	}
	m := hmac.New(sha256.New, salt)
	m.Write(secret)
	return &hkdfState{prk: m.Sum(nil), info: info}
}

func (h *hkdfState) next(n int) []byte {
	for len(h.buf) < n {
		h.ctr++
		m := hmac.New(sha256.New, h.prk)
		m.Write(h.prev)
		m.Write(h.info)
		m.Write([]byte{h.ctr})
		h.prev = m.Sum(nil)
		h.buf = append(h.buf, h.prev...)
	}
	out := h.buf[:n]
	h.buf = h.buf[n:]
	return out
}

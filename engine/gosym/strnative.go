package gosym

import (
	"fmt"
	"go/types"
	"regexp/syntax"

	"golang.org/x/tools/go/ssa"
)

// Bounded, non-forking models of the string functions cedar uses. Every model
// requires a static bound on the string length (StrV.Max).

func (in *Interp) needBound(s StrV, what string) int {
	if s.Len.IsConst() {
		return int(s.Len.V)
	}
	if s.Max < 0 {
		panic(what + ": string without a static length bound")
	}
	return s.Max
}

func (in *Interp) sbyte(s StrV, i *Term) *Term { return in.memRead(s.Mem, in.tb.Add(s.Off, i)) }

// matchAt: s[i:i+len(pat)] == pat for a concrete pattern (bounds included).
func (in *Interp) matchAt(s StrV, i int, pat []byte) *Term {
	tb := in.tb
	cs := []*Term{tb.SLe(tb.Int(int64(i+len(pat))), s.Len)}
	for j, c := range pat {
		cs = append(cs, tb.Eq(in.strByte(s, i+j), tb.Const(8, uint64(c))))
	}
	return tb.And(cs...)
}

// strIndexFrom: first index >= from (term) where pat occurs, else -1.
func (in *Interp) strIndexFrom(s StrV, pat []byte, from *Term) *Term {
	tb := in.tb
	n := in.needBound(s, "strings.Index")
	res := tb.Int(-1)
	if len(pat) == 0 {
		return tb.Ite(tb.SLe(from, s.Len), from, res)
	}
	for i := n - len(pat); i >= 0; i-- {
		ii := tb.Int(int64(i))
		hit := tb.And(tb.SLe(from, ii), in.matchAt(s, i, pat))
		res = tb.Ite(hit, ii, res)
	}
	return res
}

func (in *Interp) strLastIndex(s StrV, pat []byte) *Term {
	tb := in.tb
	n := in.needBound(s, "strings.LastIndex")
	res := tb.Int(-1)
	for i := 0; i+len(pat) <= n; i++ {
		res = tb.Ite(in.matchAt(s, i, pat), tb.Int(int64(i)), res)
	}
	return res
}

func (in *Interp) concretePattern(v Value, what string) []byte {
	s, ok := in.concreteStr(v.(StrV))
	if !ok {
		panic(what + ": separator/pattern must be concrete")
	}
	return []byte(s)
}

func isSpaceTerm(tb *TB, b *Term) *Term {
	return tb.Or(tb.Eq(b, tb.Const(8, ' ')), tb.And(tb.ULe(tb.Const(8, 9), b), tb.ULe(b, tb.Const(8, 13))))
}

// trimWith trims bytes satisfying pred from the left and/or right.
func (in *Interp) trimWith(s StrV, pred func(b *Term) *Term, left, right bool) StrV {
	tb := in.tb
	n := in.needBound(s, "strings.Trim")
	start := tb.Int(0)
	if left {
		// start = first index i < len with !pred(s[i]), else len
		start = s.Len
		for i := n - 1; i >= 0; i-- {
			ii := tb.Int(int64(i))
			start = tb.Ite(tb.And(tb.SLt(ii, s.Len), tb.Not(pred(in.strByte(s, i)))), ii, start)
		}
	}
	end := s.Len
	if right {
		// end = 1 + last index i in [start, len) with !pred, else start
		e := start
		for i := 0; i < n; i++ {
			ii := tb.Int(int64(i))
			e = tb.Ite(tb.And(tb.SLt(ii, s.Len), tb.SLe(start, ii), tb.Not(pred(in.strByte(s, i)))), tb.Int(int64(i+1)), e)
		}
		end = e
	}
	return StrV{Mem: s.Mem, Off: tb.Add(s.Off, start), Len: tb.Sub(end, start), Max: n}
}

func (in *Interp) mapBytes(s StrV, f func(b *Term) *Term) StrV {
	tb := in.tb
	n := in.needBound(s, "strings.ToLower/ToUpper")
	m := zeroMem
	for i := 0; i < n; i++ {
		m = in.memStore(m, tb.Int(int64(i)), f(in.strByte(s, i)))
	}
	return StrV{Mem: m, Off: tb.Int(0), Len: s.Len, Max: n}
}

func (in *Interp) lowerByte(b *Term) *Term {
	tb := in.tb
	up := tb.And(tb.ULe(tb.Const(8, 'A'), b), tb.ULe(b, tb.Const(8, 'Z')))
	return tb.Ite(up, tb.Add(b, tb.Const(8, 32)), b)
}

func (in *Interp) upperByte(b *Term) *Term {
	tb := in.tb
	lo := tb.And(tb.ULe(tb.Const(8, 'a'), b), tb.ULe(b, tb.Const(8, 'z')))
	return tb.Ite(lo, tb.Sub(b, tb.Const(8, 32)), b)
}

// strSplit forks on the number of separators (bounded) and returns the pieces.
func (in *Interp) strSplit(s StrV, sep []byte, maxPieces int) []StrV {
	tb := in.tb
	if len(sep) == 0 {
		panic("strings.Split with empty separator unsupported")
	}
	var pieces []StrV
	from := tb.Int(0)
	for k := 0; ; k++ {
		idx := in.strIndexFrom(s, sep, from)
		found := tb.SLe(tb.Int(0), idx)
		last := maxPieces > 0 && k == maxPieces-1
		if last || !in.branch(found) {
			pieces = append(pieces, StrV{Mem: s.Mem, Off: tb.Add(s.Off, from), Len: tb.Sub(s.Len, from), Max: in.needBound(s, "split")})
			return pieces
		}
		pieces = append(pieces, StrV{Mem: s.Mem, Off: tb.Add(s.Off, from), Len: tb.Sub(idx, from), Max: in.needBound(s, "split")})
		from = tb.Add(idx, tb.Int(int64(len(sep))))
		if k > 48 {
			in.inconclusive = append(in.inconclusive, "strings.Split: more than 48 pieces")
			in.endPath("unwind")
		}
	}
}

func (in *Interp) strSliceValue(ps []StrV) Value {
	tb := in.tb
	e := make([]Value, len(ps))
	for i, p := range ps {
		e[i] = p
	}
	o := in.newObj(&ArrayV{E: e}, nil, "strslice")
	n := tb.Int(int64(len(ps)))
	return SliceV{Base: Ptr{Obj: o}, Off: tb.Int(0), Len: n, Cap: n, Max: len(ps)}
}

func (in *Interp) strSliceElems(v Value) []StrV {
	sl := v.(SliceV)
	if sl.Base.Obj == nil {
		return nil
	}
	n := in.concretize(sl.Len, "string slice length")
	arr := getPath(sl.Base.Obj.Val, sl.Base.Path).(*ArrayV)
	out := make([]StrV, n)
	for i := 0; i < n; i++ {
		out[i] = arr.E[int(sl.Off.V)+i].(StrV)
	}
	return out
}

// parseDecimal models strconv.Atoi / ParseInt(s, 10, 64) acceptance and value
// for strings of at most 18 digits.
// digitsTermOf recognises a string that is, unchanged, the decimal rendering the
// engine produced for an integer term (strconv.Itoa / FormatInt / %d).
func (in *Interp) digitsTermOf(s StrV) (*Term, bool) {
	for _, t := range in.digitList {
		c := in.digitCache[t]
		if c.Mem == s.Mem && c.Off == s.Off && c.Len == s.Len {
			return t, true
		}
	}
	return nil, false
}

func (in *Interp) parseDecimal(s StrV) (val *Term, ok *Term) {
	tb := in.tb
	if t, is := in.digitsTermOf(s); is {
		// parsing the exact rendering of t gives t back (|t| < 10^18 was assumed
		// when it was rendered)
		if t.S.W < 64 {
			if in.digitSigned[t] {
				return tb.SExt(64, t), tb.True
			}
			return tb.ZExt(64, t), tb.True
		}
		return t, tb.True
	}
	n := in.needBound(s, "strconv.Atoi")
	if n > 19 {
		panic("strconv.Atoi: bound above 19 bytes")
	}
	if n == 0 {
		return tb.Int(0), tb.False
	}
	b0 := in.strByte(s, 0)
	neg := tb.Eq(b0, tb.Const(8, '-'))
	plus := tb.Eq(b0, tb.Const(8, '+'))
	signed := tb.Or(neg, plus)
	ndig := tb.Sub(s.Len, tb.Ite(signed, tb.Int(1), tb.Int(0)))
	okc := []*Term{tb.SLe(tb.Int(1), ndig), tb.SLe(ndig, tb.Int(18))}
	acc := tb.Int(0)
	for i := 0; i < n; i++ {
		ii := tb.Int(int64(i))
		b := in.strByte(s, i)
		inStr := tb.SLt(ii, s.Len)
		isSign := tb.And(tb.Bool(i == 0), signed)
		dig := tb.And(tb.ULe(tb.Const(8, '0'), b), tb.ULe(b, tb.Const(8, '9')))
		okc = append(okc, tb.Or(tb.Not(inStr), isSign, dig))
		d := tb.ZExt(64, tb.Sub(b, tb.Const(8, '0')))
		use := tb.And(inStr, tb.Not(isSign))
		acc = tb.Ite(use, tb.Add(tb.Mul(acc, tb.Int(10)), d), acc)
	}
	val = tb.Ite(neg, tb.Neg(acc), acc)
	return val, tb.And(okc...)
}

func registerStrNatives(in *Interp) {
	n := in.natives
	tb := in.tb
	n["strings.Index"] = func(in *Interp, fn *ssa.Function, args []Value) Value {
		return in.strIndexFrom(args[0].(StrV), in.concretePattern(args[1], "strings.Index"), tb.Int(0))
	}
	n["strings.Contains"] = func(in *Interp, fn *ssa.Function, args []Value) Value {
		return tb.SLe(tb.Int(0), in.strIndexFrom(args[0].(StrV), in.concretePattern(args[1], "strings.Contains"), tb.Int(0)))
	}
	n["strings.ContainsRune"] = func(in *Interp, fn *ssa.Function, args []Value) Value {
		r := args[1].(*Term)
		if !r.IsConst() || r.V >= 0x80 {
			panic("strings.ContainsRune: non-ASCII or symbolic rune")
		}
		return tb.SLe(tb.Int(0), in.strIndexFrom(args[0].(StrV), []byte{byte(r.V)}, tb.Int(0)))
	}
	n["strings.ContainsAny"] = func(in *Interp, fn *ssa.Function, args []Value) Value {
		s := args[0].(StrV)
		chars := in.concretePattern(args[1], "strings.ContainsAny")
		r := tb.False
		for _, c := range chars {
			r = tb.Or(r, tb.SLe(tb.Int(0), in.strIndexFrom(s, []byte{c}, tb.Int(0))))
		}
		return r
	}
	n["strings.LastIndex"] = func(in *Interp, fn *ssa.Function, args []Value) Value {
		return in.strLastIndex(args[0].(StrV), in.concretePattern(args[1], "strings.LastIndex"))
	}
	n["strings.LastIndexByte"] = func(in *Interp, fn *ssa.Function, args []Value) Value {
		c := args[1].(*Term)
		if !c.IsConst() {
			panic("strings.LastIndexByte: symbolic byte")
		}
		return in.strLastIndex(args[0].(StrV), []byte{byte(c.V)})
	}
	n["strings.Count"] = func(in *Interp, fn *ssa.Function, args []Value) Value {
		s := args[0].(StrV)
		pat := in.concretePattern(args[1], "strings.Count")
		if len(pat) != 1 {
			panic("strings.Count: only single-byte patterns")
		}
		bound := in.needBound(s, "strings.Count")
		r := tb.Int(0)
		for i := 0; i < bound; i++ {
			r = tb.Add(r, tb.Ite(in.matchAt(s, i, pat), tb.Int(1), tb.Int(0)))
		}
		return r
	}
	n["strings.TrimSpace"] = func(in *Interp, fn *ssa.Function, args []Value) Value {
		if _, ok := in.digitsTermOf(args[0].(StrV)); ok {
			return args[0] // a decimal rendering has no white space to trim
		}
		in.noteAssumption("strings.TrimSpace modelled for ASCII white space (Unicode spaces U+0085/U+00A0 at the ends are outside)")
		return in.trimWith(args[0].(StrV), func(b *Term) *Term { return isSpaceTerm(tb, b) }, true, true)
	}
	trimSet := func(left, right bool) nativeFn {
		return func(in *Interp, fn *ssa.Function, args []Value) Value {
			set := in.concretePattern(args[1], "strings.Trim")
			return in.trimWith(args[0].(StrV), func(b *Term) *Term {
				r := tb.False
				for _, c := range set {
					r = tb.Or(r, tb.Eq(b, tb.Const(8, uint64(c))))
				}
				return r
			}, left, right)
		}
	}
	n["strings.Trim"] = trimSet(true, true)
	n["strings.TrimLeft"] = trimSet(true, false)
	n["strings.TrimRight"] = trimSet(false, true)
	n["strings.ToLower"] = func(in *Interp, fn *ssa.Function, args []Value) Value {
		in.noteAssumption("strings.ToLower/ToUpper/EqualFold modelled for ASCII letters")
		return in.mapBytes(args[0].(StrV), in.lowerByte)
	}
	n["strings.ToUpper"] = func(in *Interp, fn *ssa.Function, args []Value) Value {
		in.noteAssumption("strings.ToLower/ToUpper/EqualFold modelled for ASCII letters")
		return in.mapBytes(args[0].(StrV), in.upperByte)
	}
	n["strings.EqualFold"] = func(in *Interp, fn *ssa.Function, args []Value) Value {
		in.noteAssumption("strings.ToLower/ToUpper/EqualFold modelled for ASCII letters")
		a, b := args[0].(StrV), args[1].(StrV)
		return in.strEq(in.mapBytes(a, in.lowerByte), in.mapBytes(b, in.lowerByte))
	}
	n["strings.Split"] = func(in *Interp, fn *ssa.Function, args []Value) Value {
		return in.strSliceValue(in.strSplit(args[0].(StrV), in.concretePattern(args[1], "strings.Split"), 0))
	}
	n["strings.SplitN"] = func(in *Interp, fn *ssa.Function, args []Value) Value {
		k := args[2].(*Term)
		if !k.IsConst() {
			panic("strings.SplitN: symbolic n")
		}
		nn := int(k.SVal())
		if nn == 0 {
			return in.zero(fn.Signature.Results().At(0).Type())
		}
		if nn < 0 {
			nn = 0
		}
		return in.strSliceValue(in.strSplit(args[0].(StrV), in.concretePattern(args[1], "strings.SplitN"), nn))
	}
	n["strings.Cut"] = func(in *Interp, fn *ssa.Function, args []Value) Value {
		s := args[0].(StrV)
		sep := in.concretePattern(args[1], "strings.Cut")
		idx := in.strIndexFrom(s, sep, tb.Int(0))
		if in.branch(tb.SLe(tb.Int(0), idx)) {
			after := tb.Add(idx, tb.Int(int64(len(sep))))
			return TupleV{StrV{Mem: s.Mem, Off: s.Off, Len: idx, Max: s.Max},
				StrV{Mem: s.Mem, Off: tb.Add(s.Off, after), Len: tb.Sub(s.Len, after), Max: s.Max}, tb.True}
		}
		return TupleV{s, in.strConst(""), tb.False}
	}
	n["strings.Join"] = func(in *Interp, fn *ssa.Function, args []Value) Value {
		elems := in.strSliceElems(args[0])
		sep := args[1].(StrV)
		res := in.strConst("")
		for i, e := range elems {
			if i > 0 {
				res = in.strConcat(res, sep)
			}
			res = in.strConcat(res, e)
		}
		return res
	}
	n["strings.Repeat"] = func(in *Interp, fn *ssa.Function, args []Value) Value {
		c := in.concretize(args[1].(*Term), "strings.Repeat count")
		res := in.strConst("")
		for i := 0; i < c; i++ {
			res = in.strConcat(res, args[0].(StrV))
		}
		return res
	}
	n["strings.Fields"] = func(in *Interp, fn *ssa.Function, args []Value) Value {
		// split on runs of ASCII white space: fork per field
		s := in.trimWith(args[0].(StrV), func(b *Term) *Term { return isSpaceTerm(tb, b) }, true, true)
		var out []StrV
		for k := 0; k < 12; k++ {
			if !in.branch(tb.SLt(tb.Int(0), s.Len)) {
				return in.strSliceValue(out)
			}
			bound := in.needBound(s, "strings.Fields")
			// end of field = first space
			end := s.Len
			for i := bound - 1; i >= 0; i-- {
				ii := tb.Int(int64(i))
				end = tb.Ite(tb.And(tb.SLt(ii, s.Len), isSpaceTerm(tb, in.strByte(s, i))), ii, end)
			}
			out = append(out, StrV{Mem: s.Mem, Off: s.Off, Len: end, Max: bound})
			rest := StrV{Mem: s.Mem, Off: tb.Add(s.Off, end), Len: tb.Sub(s.Len, end), Max: bound}
			s = in.trimWith(rest, func(b *Term) *Term { return isSpaceTerm(tb, b) }, true, false)
		}
		in.inconclusive = append(in.inconclusive, "strings.Fields: more than 12 fields")
		in.endPath("unwind")
		return nil
	}
	// strings.Builder on its real fields (addr, buf)
	bw := func(in *Interp, recv Ptr, src *ByteMem, off, ln *Term, mx int) {
		sv := in.load(recv).(*StructV)
		buf := sv.F[1].(SliceV)
		nb := in.appendOp(buf, SliceV{Base: Ptr{Obj: in.newObj(src, nil, "tmp")}, Off: off, Len: ln, Cap: ln, Byte: true, Max: mx}, types.NewSlice(types.Typ[types.Byte]))
		f := append([]Value{}, sv.F...)
		f[1] = nb
		in.store(recv, &StructV{F: f})
	}
	n["(*strings.Builder).WriteString"] = func(in *Interp, fn *ssa.Function, args []Value) Value {
		s := args[1].(StrV)
		bw(in, args[0].(Ptr), s.Mem, s.Off, s.Len, s.Max)
		return TupleV{s.Len, IfaceV{}}
	}
	n["(*strings.Builder).Write"] = func(in *Interp, fn *ssa.Function, args []Value) Value {
		s := args[1].(SliceV)
		bw(in, args[0].(Ptr), in.sliceMem(s), s.Off, s.Len, s.Max)
		return TupleV{s.Len, IfaceV{}}
	}
	n["(*strings.Builder).WriteByte"] = func(in *Interp, fn *ssa.Function, args []Value) Value {
		m := in.memStore(zeroMem, tb.Int(0), args[1].(*Term))
		bw(in, args[0].(Ptr), m, tb.Int(0), tb.Int(1), 1)
		return IfaceV{}
	}
	n["(*strings.Builder).WriteRune"] = func(in *Interp, fn *ssa.Function, args []Value) Value {
		r := args[1].(*Term)
		if r.IsConst() {
			s := in.strConst(string(rune(r.V)))
			bw(in, args[0].(Ptr), s.Mem, s.Off, s.Len, s.Max)
			return TupleV{s.Len, IfaceV{}}
		}
		m := in.memStore(zeroMem, tb.Int(0), tb.Extract(7, 0, r))
		bw(in, args[0].(Ptr), m, tb.Int(0), tb.Int(1), 1)
		return TupleV{tb.Int(1), IfaceV{}}
	}
	n["(*strings.Builder).String"] = func(in *Interp, fn *ssa.Function, args []Value) Value {
		sv := in.load(args[0].(Ptr)).(*StructV)
		return in.bytesToStr(sv.F[1].(SliceV))
	}
	n["(*strings.Builder).Len"] = func(in *Interp, fn *ssa.Function, args []Value) Value {
		sv := in.load(args[0].(Ptr)).(*StructV)
		return sv.F[1].(SliceV).Len
	}
	n["(*strings.Builder).Grow"] = nop
	n["(*strings.Builder).Reset"] = func(in *Interp, fn *ssa.Function, args []Value) Value {
		p := args[0].(Ptr)
		in.store(p, in.zero(p.Obj.Typ))
		return nil
	}
	n["strconv.Atoi"] = func(in *Interp, fn *ssa.Function, args []Value) Value {
		v, ok := in.parseDecimal(args[0].(StrV))
		if in.branch(ok) {
			return TupleV{v, IfaceV{}}
		}
		return TupleV{tb.Int(0), in.newError("strconv.Atoi: invalid syntax")}
	}
	n["strconv.ParseFloat"] = func(in *Interp, fn *ssa.Function, args []Value) Value {
		// acceptance grammar only (decimal and hexadecimal floats without digit
		// separators, the textual specials); the value is not modelled
		s := args[0].(StrV)
		if in.pfRE == nil {
			pats := []string{
				`^[+\-]?([0-9]+\.?[0-9]*|\.[0-9]+)([eE][+\-]?[0-9]+)?$`,
				`^[+\-]?0[xX]([0-9a-fA-F]+\.?[0-9a-fA-F]*|\.[0-9a-fA-F]+)[pP][+\-]?[0-9]+$`,
				`^[+\-]?([iI][nN][fF]|[iI][nN][fF][iI][nN][iI][tT][yY]|[nN][aA][nN])$`,
			}
			for _, p := range pats {
				re, err := syntax.Parse(p, syntax.Perl)
				if err != nil {
					panic(err)
				}
				prog, err := syntax.Compile(re.Simplify())
				if err != nil {
					panic(err)
				}
				in.pfRE = append(in.pfRE, &regexModel{pat: p, prog: prog})
			}
		}
		ok := tb.False
		for _, rm := range in.pfRE {
			ok = tb.Or(ok, in.regexMatch(rm, s))
		}
		in.noteAssumption("strconv.ParseFloat modelled by its acceptance grammar (no digit separators, exponents below the range limit); the parsed value is not modelled")
		if in.branch(ok) {
			return TupleV{tb.FPConst(0), IfaceV{}}
		}
		return TupleV{tb.FPConst(0), in.newError("strconv.ParseFloat: invalid syntax")}
	}
	n["strconv.ParseInt"] = func(in *Interp, fn *ssa.Function, args []Value) Value {
		base := args[1].(*Term)
		if !base.IsConst() || base.V != 10 {
			panic("strconv.ParseInt: only base 10 modelled")
		}
		v, ok := in.parseDecimal(args[0].(StrV))
		bits := args[2].(*Term)
		if bits.IsConst() && bits.V == 32 {
			ok = tb.And(ok, tb.SLe(tb.Int(-1<<31), v), tb.SLe(v, tb.Int(1<<31-1)))
		}
		if in.branch(ok) {
			return TupleV{v, IfaceV{}}
		}
		return TupleV{tb.Int(0), in.newError("strconv.ParseInt: invalid syntax")}
	}
	n["strconv.FormatInt"] = func(in *Interp, fn *ssa.Function, args []Value) Value {
		return in.digitsOf(args[0].(*Term), true)
	}
	n["strconv.FormatUint"] = func(in *Interp, fn *ssa.Function, args []Value) Value {
		return in.digitsOf(args[0].(*Term), false)
	}
	_ = fmt.Sprint
}

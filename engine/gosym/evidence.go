package gosym

import (
	"bufio"
	"encoding/json"
	"fmt"
	"os"
	"os/exec"
	"path/filepath"
	"sort"
	"sync"
	"strings"
	"time"
)

func repoHead() string {
	out, err := exec.Command("git", "-C", RepoDir, "rev-parse", "HEAD").Output()
	if err != nil {
		return "unknown"
	}
	h := strings.TrimSpace(string(out))
	st, _ := exec.Command("git", "-C", RepoDir, "status", "--porcelain").Output()
	if len(strings.TrimSpace(string(st))) > 0 {
		h += "+dirty"
	}
	return h
}

func writeEvidenceFailure(opts CheckOpts, why string, wall float64) {
	ev := map[string]any{
		"property_id": opts.Prop, "tier": tierName(opts.Tier), "seed": opts.Seed, "level": "model_checking",
		"coverage": map[string]any{"evaluations": 0, "distinct_nontrivial": 0, "explanation": "run failed before exploring anything: " + why},
		"wall_s":   wall, "violations": 0, "assumptions": []string{},
		"status": "inconclusive",
	}
	writeJSON(filepath.Join(OutRoot, "evidence", opts.Prop+".json"), ev)
}

func tierName(t string) string {
	if t == "thorough" {
		return "thorough"
	}
	return "quick"
}

func writeJSON(path string, v any) {
	os.MkdirAll(filepath.Dir(path), 0o755)
	b, _ := json.MarshalIndent(v, "", " ")
	os.WriteFile(path, append(b, '\n'), 0o644)
}

func writeEvidence(opts CheckOpts, results []*HarnessResult, validated, nviol int, khits map[string]int, inconc, xnotes []string, loadS, wall float64) {
	states, transitions, obligations, discharged := 0, 0, 0, 0
	sat, unsat, unk := 0, 0, 0
	solverS := 0.0
	funcs := map[string]int{}
	models := map[string]int{}
	assume := map[string]bool{}
	var samples []any
	var hsum []any
	var instrs int64
	panicChecks := 0
	for _, r := range results {
		states += r.Stats.Paths
		transitions += r.Stats.Branches
		obligations += r.Stats.Obligations + r.Stats.PanicChecks
		discharged += r.Stats.Discharged + r.Stats.PanicChecks
		panicChecks += r.Stats.PanicChecks
		sat += r.Sat
		unsat += r.Unsat
		unk += r.Unknown
		solverS += r.SolverTime
		instrs += r.Stats.Instrs
		for k, v := range r.Stats.Funcs {
			if strings.Contains(k, "bbockelm/cedar") && !strings.Contains(k, ".VH_") && !strings.Contains(k, ".vh") {
				funcs[k] += v
			}
		}
		for k, v := range r.Stats.Models {
			models[k] += v
		}
		for _, a := range r.Stats.Assumptions {
			assume[a] = true
		}
		for i, s := range r.Samples {
			if i < 3 {
				samples = append(samples, s)
			}
		}
		for _, v := range r.Violations {
			samples = append(samples, map[string]any{"_violation": v.Label, "_harness": v.Harness, "site": v.Site, "inputs": v.Inputs})
		}
		covers := map[string]int{}
		for k, v := range r.Stats.Covers {
			covers[k] = v
		}
		hsum = append(hsum, map[string]any{
			"harness": r.Info.Name, "doc": strings.TrimSpace(r.Info.Doc), "paths": r.Stats.Paths, "branch_decisions": r.Stats.Branches,
			"paths_cut_by_unwinding": r.Stats.PathsKilledUnwind, "assertions": r.Stats.Obligations, "assertions_unsat": r.Stats.Discharged,
			"implicit_checks": r.Stats.PanicChecks, "covers": covers, "violations": len(r.Violations),
			"queries": map[string]int{"sat": r.Sat, "unsat": r.Unsat, "unknown": r.Unknown}, "solver_s": round2(r.SolverTime), "wall_s": round2(r.Wall),
			"unwind": r.Info.Unwind, "inconclusive": r.Inconclusive, "ssa_instructions_executed": r.Stats.Instrs,
		})
	}
	if len(samples) == 0 {
		samples = append(samples, map[string]any{"note": "no cover sample recorded"})
	}
	fnames := make([]string, 0, len(funcs))
	for k := range funcs {
		fnames = append(fnames, k)
	}
	sort.Strings(fnames)
	var as []string
	for a := range assume {
		as = append(as, a)
	}
	sort.Strings(as)
	as = append(as, "bounded symbolic execution of go/ssa built from /repo's working tree with Go 1.26.8; standard-library models as listed in coverage.models_used; see DESIGN.md sections 3 and 4")
	status := "holds-within-bounds"
	if nviol > 0 {
		status = "violated"
	} else if len(inconc) > 0 {
		status = "inconclusive"
	}
	ev := map[string]any{
		"property_id": opts.Prop, "tier": tierName(opts.Tier), "seed": opts.Seed, "level": "model_checking",
		"coverage": map[string]any{
			"states": states, "transitions": maxInt(transitions, 1), "traces_validated_against_impl": validated,
			"samples": samples, "obligations": obligations, "discharged": discharged,
			"explanation": "states = symbolic paths completed; transitions = symbolic branch decisions; obligations = harness assertions plus implicit panic checks (bounds, nil, make, division), each decided by an SMT query over the path condition; traces_validated = solver-produced cover witnesses re-run natively against the real build reaching the same cover label",
			"functions_encoded": fnames, "models_used": sortedKeys(models), "harnesses": hsum,
			"queries": map[string]int{"sat": sat, "unsat": unsat, "unknown": unk}, "solver_s": round2(solverS), "load_ssa_s": round2(loadS),
			"known_findings_matched": khits, "inconclusive": inconc, "xcheck": xnotes, "repo_head": repoHead(),
			"solver": "z3 5.1.0 (z3-new -in), incremental push/pop", "ssa_instructions_executed": instrs,
		},
		"assumptions": as, "wall_s": round2(wall), "violations": nviol, "status": status,
	}
	writeJSON(filepath.Join(OutRoot, "evidence", opts.Prop+".json"), ev)
}

func round2(f float64) float64 { return float64(int(f*100)) / 100 }
func maxInt(a, b int) int {
	if a > b {
		return a
	}
	return b
}

// crossCheck re-runs each harness transcript through z3 4.8.12 and cvc5 and
// compares the check-sat verdict sequences.
func crossCheck(results []*HarnessResult) []string {
	var mu sync.Mutex
	var all []string
	var wg sync.WaitGroup
	sem := make(chan struct{}, 5) // harness transcripts re-run side by side
	for _, r := range results {
		wg.Add(1)
		sem <- struct{}{}
		go func(r *HarnessResult) {
			defer wg.Done()
			defer func() { <-sem }()
			ns := crossCheckOne(r)
			mu.Lock()
			all = append(all, ns...)
			mu.Unlock()
		}(r)
	}
	wg.Wait()
	sort.Strings(all)
	return all
}

func crossCheckOne(r *HarnessResult) []string {
	var notes []string
	{
		ref, err := verdictsFromSolver([]string{"z3-new", "-in", "-t:30000"}, r.Transcript)
		if err != nil {
			notes = append(notes, fmt.Sprintf("xcheck %s: reference rerun failed: %v", r.Info.Name, err))
			return notes
		}
		for _, alt := range [][]string{{"z3", "-in", "-t:30000"}, {"cvc5", "--incremental", "--lang=smt2", "--tlimit-per=30000"}} {
			got, err := verdictsFromSolver(alt, r.Transcript)
			if err != nil {
				notes = append(notes, fmt.Sprintf("xcheck %s: %s failed: %v", r.Info.Name, alt[0], err))
				continue
			}
			agree, dis, unk := 0, 0, 0
			for i := range ref {
				if i >= len(got) {
					break
				}
				switch {
				case got[i] == "unknown" || ref[i] == "unknown":
					unk++
				case got[i] == ref[i]:
					agree++
				default:
					dis++
				}
			}
			tag := "agree"
			if dis > 0 {
				tag = "DISAGREE"
			} else if len(got) != len(ref) {
				// the other solver stopped early (time limit, or a construct it does not
				// accept such as z3's fp.to_ieee_bv): no verdict contradicts the primary,
				// the comparison is just shorter
				tag = "incomplete"
			}
			notes = append(notes, fmt.Sprintf("%s %s vs %s: %d agree, %d disagree, %d unknown (of %d/%d)", tag, r.Info.Name, alt[0], agree, dis, unk, len(got), len(ref)))
		}
	}
	return notes
}

func verdictsFromSolver(argv []string, transcript string) ([]string, error) {
	f, err := os.Open(transcript)
	if err != nil {
		return nil, err
	}
	defer f.Close()
	cmd := exec.Command(argv[0], argv[1:]...)
	cmd.Stdin = f
	out, err := cmd.StdoutPipe()
	if err != nil {
		return nil, err
	}
	if err := cmd.Start(); err != nil {
		return nil, err
	}
	// a re-run is given ten minutes per solver and transcript; what it has answered
	// by then is compared (the comparison is then reported as incomplete)
	budget := time.AfterFunc(10*time.Minute, func() { _ = cmd.Process.Kill() })
	defer budget.Stop()
	var vs []string
	sc := bufio.NewScanner(out)
	sc.Buffer(make([]byte, 1<<20), 1<<26)
	for sc.Scan() {
		l := strings.TrimSpace(sc.Text())
		if l == "sat" || l == "unsat" || l == "unknown" {
			vs = append(vs, l)
		} else if strings.Contains(l, "error") {
			vs = append(vs, "unknown")
		}
	}
	done := make(chan error, 1)
	go func() { done <- cmd.Wait() }()
	select {
	case <-done:
	case <-time.After(20 * time.Minute):
		cmd.Process.Kill()
	}
	return vs, nil
}

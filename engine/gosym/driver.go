package gosym

import (
	"sync/atomic"
	"bufio"
	"bytes"
	"encoding/json"
	"fmt"
	"go/ast"
	"os"
	"os/exec"
	"path/filepath"
	"sort"
	"strconv"
	"strings"
	"sync"
	"time"

	"golang.org/x/tools/go/packages"
	"golang.org/x/tools/go/ssa"
	"golang.org/x/tools/go/ssa/ssautil"
)

// RepoDir is the tree that is encoded. It is /repo; GOSYM_REPO redirects a run to a
// scratch worktree (used only to evaluate seeded changes in parallel, never by the
// commands registered in MANIFEST.json). GOSYM_OUT redirects out/ and evidence/.
var RepoDir = envOr("GOSYM_REPO", "/repo")

const VerifDir = "/verif"

var OutRoot = envOr("GOSYM_OUT", VerifDir)

func envOr(k, d string) string {
	if v := os.Getenv(k); v != "" {
		return v
	}
	return d
}
const ModPath = "github.com/bbockelm/cedar"

type HarnessInfo struct {
	Name     string
	Prop     string
	PkgDir   string
	Fn       *ssa.Function
	Tier     string // "" both, "thorough" only
	Unwind   int
	UnwindFn map[string]int
	MaxPaths int
	NoReplay bool
	Race     bool // native replay runs under the race detector
	Timeout  int
	Solver   string
	Logic    string
	Frontier int
	Doc      string
}

type Loaded struct {
	Prog      *ssa.Program
	Pkgs      []*packages.Package
	Harnesses []*HarnessInfo
	Overlay   map[string][]byte
	Dirs      []string
}

func init() {
	os.Setenv("PATH", "/opt/veriftools/go1.26.8/bin:"+os.Getenv("PATH"))
	os.Setenv("GOFLAGS", "-mod=mod")
	os.Setenv("GOPROXY", "off")
	os.Setenv("GOTOOLCHAIN", "local")
}

func goEnv() []string {
	return append(os.Environ(), "CGO_ENABLED=0")
}

// harnessDirs lists package directories (relative to /repo) that have harness files.
func harnessDirs() []string {
	var out []string
	root := filepath.Join(VerifDir, "harness")
	filepath.Walk(root, func(p string, info os.FileInfo, err error) error {
		if err != nil || info.IsDir() {
			return nil
		}
		if strings.HasSuffix(p, ".go") {
			d, _ := filepath.Rel(root, filepath.Dir(p))
			for _, e := range out {
				if e == d {
					return nil
				}
			}
			out = append(out, d)
		}
		return nil
	})
	sort.Strings(out)
	return out
}

func pkgNameOf(dir string) string { return filepath.Base(dir) }

// buildOverlay returns virtual file contents: rt + harness files per package dir.
func buildOverlay(dirs []string, withTest bool) map[string][]byte {
	ov := map[string][]byte{}
	rt, _ := os.ReadFile(filepath.Join(VerifDir, "harness", "rt.go.tmpl"))
	tt, _ := os.ReadFile(filepath.Join(VerifDir, "harness", "replay_test.go.tmpl"))
	for _, d := range dirs {
		pn := pkgNameOf(d)
		ov[filepath.Join(RepoDir, d, "zz_verif_rt.go")] = bytes.Replace(rt, []byte("PKGNAME"), []byte(pn), 1)
		if withTest {
			ov[filepath.Join(RepoDir, d, "zz_verif_replay_test.go")] = bytes.Replace(tt, []byte("PKGNAME"), []byte(pn), 1)
		}
		files, _ := filepath.Glob(filepath.Join(VerifDir, "harness", d, "*.go"))
		usesAd := false
		for _, f := range files {
			b, _ := os.ReadFile(f)
			ov[filepath.Join(RepoDir, d, "zz_verif_"+filepath.Base(f))] = b
			if bytes.Contains(b, []byte("vPeerAd(")) {
				usesAd = true
			}
		}
		if usesAd {
			rc, _ := os.ReadFile(filepath.Join(VerifDir, "harness", "rt_classad.go.tmpl"))
			ov[filepath.Join(RepoDir, d, "zz_verif_rt_classad.go")] = bytes.Replace(rc, []byte("PKGNAME"), []byte(pn), 1)
		}
	}
	if err := applySeams(ov); err != nil {
		fmt.Fprintln(os.Stderr, "seam rewriting failed:", err)
		ov["/repo/__verif_seam_error__.go"] = []byte("package broken // " + err.Error())
	}
	if err := applyYields(ov); err != nil {
		fmt.Fprintln(os.Stderr, "yield rewriting failed:", err)
		ov["/repo/__verif_seam_error__.go"] = []byte("package broken // " + err.Error())
	}
	return ov
}

func Load(dirs []string) (*Loaded, error) {
	if len(dirs) == 0 {
		dirs = harnessDirs()
	}
	ov := buildOverlay(dirs, false)
	cfg := &packages.Config{Mode: packages.LoadAllSyntax, Dir: RepoDir, Env: goEnv(), Overlay: ov}
	var pats []string
	for _, d := range dirs {
		pats = append(pats, "./"+d)
	}
	pkgs, err := packages.Load(cfg, pats...)
	if err != nil {
		return nil, err
	}
	nerr := 0
	packages.Visit(pkgs, nil, func(p *packages.Package) {
		for _, e := range p.Errors {
			fmt.Fprintln(os.Stderr, "load error:", e)
			nerr++
		}
	})
	if nerr > 0 {
		return nil, fmt.Errorf("%d package load errors", nerr)
	}
	prog, spkgs := ssautil.AllPackages(pkgs, ssa.InstantiateGenerics)
	prog.Build()
	l := &Loaded{Prog: prog, Pkgs: pkgs, Overlay: ov, Dirs: dirs}
	for i, sp := range spkgs {
		if sp == nil {
			continue
		}
		dir := dirs[0]
		for _, d := range dirs {
			if strings.HasSuffix(pkgs[i].PkgPath, "/"+d) || pkgs[i].PkgPath == ModPath+"/"+d {
				dir = d
			}
		}
		for name, m := range sp.Members {
			fn, ok := m.(*ssa.Function)
			if !ok || !strings.HasPrefix(name, "VH_") {
				continue
			}
			parts := strings.SplitN(name, "_", 3)
			if len(parts) < 3 {
				continue
			}
			h := &HarnessInfo{Name: name, Prop: parts[1], PkgDir: dir, Fn: fn, UnwindFn: map[string]int{}}
			if fd, ok := fn.Syntax().(*ast.FuncDecl); ok && fd.Doc != nil {
				h.Doc = fd.Doc.Text()
				for _, c := range fd.Doc.List {
					t := strings.TrimSpace(strings.TrimPrefix(c.Text, "//"))
					if !strings.HasPrefix(t, "verif:") {
						continue
					}
					f := strings.Fields(strings.TrimPrefix(t, "verif:"))
					if len(f) == 0 {
						continue
					}
					switch f[0] {
					case "tier":
						h.Tier = f[1]
					case "unwind":
						h.Unwind, _ = strconv.Atoi(f[1])
					case "unwindfn":
						kv := strings.SplitN(f[1], "=", 2)
						n, _ := strconv.Atoi(kv[1])
						h.UnwindFn[kv[0]] = n
					case "maxpaths":
						h.MaxPaths, _ = strconv.Atoi(f[1])
					case "noreplay":
						h.NoReplay = true
					case "race":
						h.Race = true
					case "timeout":
						h.Timeout, _ = strconv.Atoi(f[1])
					case "solver":
						h.Solver = f[1]
					case "logic":
						h.Logic = f[1]
					case "frontier":
						h.Frontier, _ = strconv.Atoi(f[1])
					}
				}
			}
			l.Harnesses = append(l.Harnesses, h)
		}
	}
	sort.Slice(l.Harnesses, func(i, j int) bool { return l.Harnesses[i].Name < l.Harnesses[j].Name })
	return l, nil
}

type HarnessResult struct {
	Info         *HarnessInfo
	Stats        Stats
	Violations   []*Violation
	KnownHits    map[string]int
	Inconclusive []string
	Samples      []map[string]any
	Sat, Unsat, Unknown int
	SolverTime   float64
	Wall         float64
	Transcript   string
	WorkItems    int
}

type CheckOpts struct {
	Prop     string
	Tier     string
	Seed     int64
	Verbose  bool
	Only     string
	NoReplay bool
	Jobs     int
	XCheck   bool
}

// workSlots bounds the number of solver processes running at once across all
// harnesses of a check.
var workSlots = make(chan struct{}, 14)

func runInterp(in *Interp, fn *ssa.Function, verbose bool) {
	defer func() {
		if r := recover(); r != nil {
			in.inconclusive = append(in.inconclusive, fmt.Sprintf("engine crash: %v", r))
			if verbose {
				panic(r)
			}
		}
	}()
	if err := in.RunHarness(fn); err != nil {
		in.inconclusive = append(in.inconclusive, "solver start: "+err.Error())
	}
}

func mergeStats(dst *Stats, s Stats) {
	dst.Paths += s.Paths
	dst.PathsKilledUnwind += s.PathsKilledUnwind
	dst.PathsInfeasible += s.PathsInfeasible
	dst.Branches += s.Branches
	dst.Instrs += s.Instrs
	dst.Obligations += s.Obligations
	dst.Discharged += s.Discharged
	dst.TrivialObl += s.TrivialObl
	dst.Unknowns += s.Unknowns
	dst.PanicChecks += s.PanicChecks
	for k, v := range s.Covers {
		dst.Covers[k] += v
	}
	for k, v := range s.Funcs {
		dst.Funcs[k] += v
	}
	for k, v := range s.Models {
		dst.Models[k] += v
	}
	for k, v := range s.Havocked {
		dst.Havocked[k] += v
	}
	for k, v := range s.ForkSites {
		dst.ForkSites[k] += v
	}
	for _, a := range s.Assumptions {
		found := false
		for _, b := range dst.Assumptions {
			if a == b {
				found = true
			}
		}
		if !found {
			dst.Assumptions = append(dst.Assumptions, a)
		}
	}
}

func collect(res *HarnessResult, in *Interp, mu *sync.Mutex) {
	mu.Lock()
	defer mu.Unlock()
	mergeStats(&res.Stats, in.stats)
	res.Violations = append(res.Violations, in.violations...)
	for k, v := range in.knownHits {
		res.KnownHits[k] += v
	}
	res.Inconclusive = append(res.Inconclusive, in.inconclusive...)
	for _, smp := range in.samples {
		lab, _ := smp["_cover"].(string)
		dup := false
		for _, o := range res.Samples {
			if o["_cover"] == lab {
				dup = true
			}
		}
		if !dup {
			res.Samples = append(res.Samples, smp)
		}
	}
	if in.solver != nil {
		res.Sat += in.solver.NSat
		res.Unsat += in.solver.NUnsat
		res.Unknown += in.solver.NUnknown
		res.SolverTime += in.solver.Time.Seconds()
	}
}

func runOne(l *Loaded, h *HarnessInfo, opts CheckOpts, known []KnownFinding) *HarnessResult {
	t0 := time.Now()
	cfg := Config{Unwind: h.Unwind, UnwindFn: h.UnwindFn, MaxPaths: h.MaxPaths, Known: known, Verbose: opts.Verbose, SolverName: h.Solver, TimeoutMs: h.Timeout, Logic: h.Logic}
	cfg.ViolAt = new(int64)
	if mp, err := strconv.Atoi(os.Getenv("VERIF_MAXPATHS")); err == nil && mp > 0 {
		cfg.MaxPaths = mp
	}
	os.MkdirAll(filepath.Join(OutRoot, "out", "smt"), 0o755)
	cfg.Transcript = filepath.Join(OutRoot, "out", "smt", h.Name+".smt2")
	res := &HarnessResult{Info: h, Transcript: cfg.Transcript, KnownHits: map[string]int{}}
	res.Stats.Covers = map[string]int{}
	res.Stats.Funcs = map[string]int{}
	res.Stats.Models = map[string]int{}
	res.Stats.Havocked = map[string]int{}
	res.Stats.ForkSites = map[string]int{}
	var mu sync.Mutex
	// coordinator: explores down to the frontier depth and collects work items
	workSlots <- struct{}{}
	coord := NewInterp(l.Prog, cfg)
	coord.frontierDepth = h.Frontier
	if coord.frontierDepth == 0 {
		coord.frontierDepth = 7
	}
	if h.Frontier < 0 {
		coord.frontierDepth = 0
	}
	runInterp(coord, h.Fn, opts.Verbose)
	<-workSlots
	collect(res, coord, &mu)
	items := coord.frontier
	if len(items) > 0 {
		var wg sync.WaitGroup
		next := make(chan int, len(items))
		for i := range items {
			next <- i
		}
		close(next)
		nw := 12
		if len(items) < nw {
			nw = len(items)
		}
		for w := 0; w < nw; w++ {
			wg.Add(1)
			go func(w int) {
				defer wg.Done()
				for i := range next {
					workSlots <- struct{}{}
					wcfg := cfg
					wcfg.Transcript = ""
					if i == 0 {
						wcfg.Transcript = filepath.Join(OutRoot, "out", "smt", h.Name+".w0.smt2")
					}
					if v := atomic.LoadInt64(cfg.ViolAt); v != 0 && time.Since(time.Unix(0, v)) > violGrace {
						<-workSlots
						mu.Lock()
						res.Inconclusive = append(res.Inconclusive, "exploration cut short 45 s after the first violation")
						mu.Unlock()
						continue
					}
					in := NewInterp(l.Prog, wcfg)
					for _, c := range items[i] {
						in.prefix = append(in.prefix, decision{choice: c})
					}
					in.pinned = len(items[i])
					runInterp(in, h.Fn, opts.Verbose)
					<-workSlots
					collect(res, in, &mu)
				}
			}(w)
		}
		wg.Wait()
		res.WorkItems = len(items)
	}
	if opts.Verbose {
		for _, k := range sortedKeys(res.Stats.ForkSites) {
			fmt.Fprintf(os.Stderr, "fork-site %6d %s\n", res.Stats.ForkSites[k], k)
		}
	}
	res.Inconclusive = dedupe(res.Inconclusive)
	res.Wall = time.Since(t0).Seconds()
	return res
}

func dedupe(xs []string) []string {
	seen := map[string]bool{}
	var out []string
	for _, x := range xs {
		if !seen[x] {
			seen[x] = true
			out = append(out, x)
		}
	}
	return out
}

// Check runs every harness of a property and writes the evidence file.
func Check(opts CheckOpts) int {
	t0 := time.Now()
	l, err := Load(nil)
	if err != nil {
		fmt.Fprintln(os.Stderr, "load failed:", err)
		writeEvidenceFailure(opts, "load failed: "+err.Error(), time.Since(t0).Seconds())
		return 2
	}
	loadS := time.Since(t0).Seconds()
	known, err := LoadKnown(filepath.Join(VerifDir, "known_findings.json"))
	if err != nil {
		fmt.Fprintln(os.Stderr, "known_findings.json:", err)
		return 2
	}
	var hs []*HarnessInfo
	for _, h := range l.Harnesses {
		if h.Prop != opts.Prop {
			continue
		}
		if h.Tier == "thorough" && opts.Tier != "thorough" {
			continue
		}
		if h.Tier == "quick" && opts.Tier != "quick" {
			continue
		}
		if opts.Only != "" && !strings.Contains(h.Name, opts.Only) {
			continue
		}
		hs = append(hs, h)
	}
	if len(hs) == 0 {
		fmt.Fprintln(os.Stderr, "no harness for", opts.Prop)
		writeEvidenceFailure(opts, "no harness found", time.Since(t0).Seconds())
		return 2
	}
	var pk []KnownFinding
	for _, k := range known {
		if k.Property == opts.Prop {
			pk = append(pk, k)
		}
	}
	results := make([]*HarnessResult, len(hs))
	jobs := opts.Jobs
	if jobs <= 0 {
		jobs = 8
	}
	sem := make(chan struct{}, jobs)
	var wg sync.WaitGroup
	for i, h := range hs {
		wg.Add(1)
		sem <- struct{}{}
		go func(i int, h *HarnessInfo) {
			defer wg.Done()
			defer func() { <-sem }()
			results[i] = runOne(l, h, opts, pk)
		}(i, h)
	}
	wg.Wait()

	exit := 0
	var inconc []string
	// replay: cover samples (translator validation) and violations
	var allViol []*Violation
	for _, r := range results {
		for _, m := range r.Inconclusive {
			inconc = append(inconc, r.Info.Name+": "+m)
		}
		allViol = append(allViol, dedupViolations(r.Violations)...)
	}
	validated, replayNotes := 0, []string{}
	replayPaths := map[*Violation]string{}
	if !opts.NoReplay {
		validated, replayNotes = replayAll(l, results, allViol, replayPaths, opts)
	}
	inconc = append(inconc, replayNotes...)
	// cover check: every cover label declared in the harness source must be reached
	for _, r := range results {
		for _, lab := range coverLabels(r.Info) {
			if r.Stats.Covers[lab] == 0 {
				inconc = append(inconc, fmt.Sprintf("%s: cover %q never reached (vacuity guard)", r.Info.Name, lab))
			}
		}
	}
	nviol := 0
	for _, v := range allViol {
		p, ok := replayPaths[v]
		if !ok {
			if opts.NoReplay {
				fmt.Printf("VIOLATION-UNREPLAYED property=%s harness=%s label=%q site=%s\n", opts.Prop, v.Harness, v.Label, v.Site)
				nviol++
			}
			continue
		}
		nviol++
		fmt.Printf("VIOLATION property=%s replay=%s\n", opts.Prop, p)
		fmt.Printf("  harness=%s kind=%s label=%q site=%s\n", v.Harness, v.Kind, v.Label, v.Site)
	}
	khits := map[string]int{}
	for _, r := range results {
		for k, n := range r.KnownHits {
			khits[k] += n
		}
	}
	for _, k := range pk {
		if k.Status == "known" && khits[k.ID] > 0 {
			fmt.Printf("KNOWN-FINDING: property=%s %s (%s)\n", opts.Prop, k.What, k.ID)
		}
	}
	if nviol > 0 {
		exit = 1
	} else if len(inconc) > 0 {
		exit = 2
	}
	for _, m := range dedupe(inconc) {
		fmt.Println("INCONCLUSIVE:", m)
	}
	var xnotes []string
	if opts.XCheck {
		xnotes = crossCheck(results)
		for _, n := range xnotes {
			if strings.HasPrefix(n, "DISAGREE") {
				fmt.Println("INCONCLUSIVE:", n)
				if exit == 0 {
					exit = 2
				}
			}
		}
	}
	writeEvidence(opts, results, validated, nviol, khits, dedupe(inconc), xnotes, loadS, time.Since(t0).Seconds())
	for _, r := range results {
		fmt.Printf("%-40s paths=%d obligations=%d discharged=%d viol=%d sat/unsat/unk=%d/%d/%d solver=%.1fs wall=%.1fs\n",
			r.Info.Name, r.Stats.Paths, r.Stats.Obligations, r.Stats.Discharged, len(r.Violations), r.Sat, r.Unsat, r.Unknown, r.SolverTime, r.Wall)
	}
	fmt.Printf("RESULT property=%s tier=%s exit=%d wall=%.1fs\n", opts.Prop, opts.Tier, exit, time.Since(t0).Seconds())
	return exit
}

func dedupViolations(vs []*Violation) []*Violation {
	seen := map[string]bool{}
	var out []*Violation
	for _, v := range vs {
		k := v.Harness + "|" + v.Kind + "|" + v.Label + "|" + v.Site
		if seen[k] {
			continue
		}
		seen[k] = true
		out = append(out, v)
	}
	return out
}

// coverLabels extracts the constant labels passed to vCover in the harness function body.
func coverLabels(h *HarnessInfo) []string {
	var out []string
	seen := map[string]bool{}
	var visit func(fn *ssa.Function, depth int)
	visited := map[*ssa.Function]bool{}
	visit = func(fn *ssa.Function, depth int) {
		if fn == nil || visited[fn] || fn.Blocks == nil || depth > 3 {
			return
		}
		visited[fn] = true
		for _, b := range fn.Blocks {
			for _, ins := range b.Instrs {
				c, ok := ins.(*ssa.Call)
				if !ok {
					continue
				}
				callee := c.Call.StaticCallee()
				if callee == nil {
					continue
				}
				if callee.Name() == "vCover" {
					if k, ok := c.Call.Args[0].(*ssa.Const); ok {
						s := strings.Trim(k.Value.ExactString(), "\"")
						if !seen[s] {
							seen[s] = true
							out = append(out, s)
						}
					}
				} else if strings.HasPrefix(callee.Name(), "vh") {
					visit(callee, depth+1)
				}
			}
		}
		for _, af := range fn.AnonFuncs {
			visit(af, depth+1)
		}
	}
	visit(h.Fn, 0)
	return out
}

// ---- native replay --------------------------------------------------------------

type replayCase struct {
	Harness string         `json:"harness"`
	Inputs  map[string]any `json:"inputs"`
}

type replayResult struct {
	Case       int      `json:"case"`
	Harness    string   `json:"harness"`
	Covers     []string `json:"covers"`
	Fails      []string `json:"fails"`
	Panic      string   `json:"panic"`
	AssumeFail string   `json:"assume_fail"`
	Race       string   `json:"race,omitempty"`
}

// writeOverlayFiles materialises the overlay under dir and returns the overlay json path.
func writeOverlayFiles(dirs []string, dir string) (string, error) {
	ov := buildOverlay(dirs, true)
	repl := map[string]string{}
	os.MkdirAll(dir, 0o755)
	for virt, content := range ov {
		rel, _ := filepath.Rel(RepoDir, virt)
		real := filepath.Join(dir, strings.ReplaceAll(rel, "/", "__"))
		if err := os.WriteFile(real, content, 0o644); err != nil {
			return "", err
		}
		repl[virt] = real
	}
	b, _ := json.MarshalIndent(map[string]any{"Replace": repl}, "", " ")
	p := filepath.Join(dir, "overlay.json")
	return p, os.WriteFile(p, b, 0o644)
}

// runNative replays the cases natively. With race set the test binary is built
// with the race detector; a "WARNING: DATA RACE" report printed while a case runs
// (the test binary's stdout and stderr share one pipe, and every case joins its
// goroutines before its VERIF-RESULT line) is attributed to that case.
func runNative(pkgDir, overlay, cexPath string, timeout time.Duration, race bool) ([]replayResult, string, error) {
	args := []string{"test", "-vet=off", "-count=1", "-overlay", overlay, "-run", "^TestVerifReplay$", "-timeout", fmt.Sprintf("%ds", int(timeout.Seconds())), "-v"}
	if race {
		args = append(args, "-race")
	}
	args = append(args, ".")
	cmd := exec.Command("go", args...)
	cmd.Dir = filepath.Join(RepoDir, pkgDir)
	cmd.Env = append(goEnv(), "VERIF_CEX="+cexPath)
	if race {
		cmd.Env = append(cmd.Env, "CGO_ENABLED=1", "GORACE=halt_on_error=0")
	}
	out, err := cmd.CombinedOutput()
	var res []replayResult
	sc := bufio.NewScanner(bytes.NewReader(out))
	sc.Buffer(make([]byte, 1<<20), 1<<26)
	pending := ""
	inReport := false
	for sc.Scan() {
		line := sc.Text()
		if strings.Contains(line, "WARNING: DATA RACE") {
			inReport = true
			if pending == "" {
				pending = "DATA RACE"
			}
			continue
		}
		if inReport {
			t := strings.TrimSpace(line)
			if strings.HasPrefix(t, "==================") {
				inReport = false
			} else if strings.Contains(t, "cedar/") && strings.Contains(t, "()") && len(pending) < 400 && !strings.Contains(t, "vhC") && !strings.Contains(t, "VH_") {
				pending += " | " + t
			}
		}
		if i := strings.Index(line, "VERIF-RESULT "); i >= 0 {
			var r replayResult
			if json.Unmarshal([]byte(line[i+len("VERIF-RESULT "):]), &r) == nil {
				r.Race = pending
				pending = ""
				res = append(res, r)
			}
		}
	}
	return res, string(out), err
}

func groupKey(h *HarnessInfo) string {
	if h.Race {
		return h.PkgDir + "|race"
	}
	return h.PkgDir
}

func cleanInputs(m map[string]any) map[string]any {
	out := map[string]any{}
	for k, v := range m {
		if strings.HasPrefix(k, "_") {
			continue
		}
		out[k] = v
	}
	return out
}

// replayAll replays cover samples and violations natively. It returns the number
// of validated cover samples and notes for mismatches.
func replayAll(l *Loaded, results []*HarnessResult, viols []*Violation, paths map[*Violation]string, opts CheckOpts) (int, []string) {
	var notes []string
	validated := 0
	outDir := filepath.Join(OutRoot, "out", "replays", opts.Prop)
	os.RemoveAll(outDir)
	os.MkdirAll(outDir, 0o755)
	// one overlay directory per property, so that checks of different properties can
	// run side by side without rewriting each other's files mid-compile
	overlay, err := writeOverlayFiles(l.Dirs, filepath.Join(OutRoot, "out", "overlay-"+opts.Prop))
	if err != nil {
		return 0, []string{"cannot write overlay: " + err.Error()}
	}
	// group by package dir
	type item struct {
		c     replayCase
		viol  *Violation
		cover string
		h     *HarnessInfo
	}
	byDir := map[string][]item{}
	hinfo := map[string]*HarnessInfo{}
	for _, r := range results {
		hinfo[r.Info.Name] = r.Info
		if r.Info.NoReplay {
			continue
		}
		for _, s := range r.Samples {
			lab, _ := s["_cover"].(string)
			if strings.HasPrefix(lab, "ideal:") {
				// reachable only relative to a cryptographic idealisation (e.g. the
				// adversary's bytes equal a ciphertext the solver cannot predict)
				continue
			}
			byDir[groupKey(r.Info)] = append(byDir[groupKey(r.Info)], item{c: replayCase{r.Info.Name, cleanInputs(s)}, cover: lab, h: r.Info})
		}
	}
	for _, v := range viols {
		h := hinfo[v.Harness]
		if h == nil {
			continue
		}
		if h.NoReplay {
			// engine-only harness: the violation cannot be confirmed natively
			notes = append(notes, fmt.Sprintf("%s: violation %q found by an engine-only harness cannot be replayed natively", v.Harness, v.Label))
			continue
		}
		byDir[groupKey(h)] = append(byDir[groupKey(h)], item{c: replayCase{v.Harness, cleanInputs(v.Inputs)}, viol: v, h: h})
	}
	nv := 0
	for key, items := range byDir {
		race := strings.HasSuffix(key, "|race")
		dir := strings.TrimSuffix(key, "|race")
		cases := make([]replayCase, len(items))
		for i, it := range items {
			cases[i] = it.c
		}
		cexPath := filepath.Join(outDir, "cases-"+strings.ReplaceAll(strings.ReplaceAll(key, "|", "_"), "/", "_")+".json")
		b, _ := json.MarshalIndent(cases, "", " ")
		os.WriteFile(cexPath, b, 0o644)
		res, out, err := runNative(dir, overlay, cexPath, 10*time.Minute, race)
		if len(res) == 0 {
			msg := "native replay produced no results in " + dir
			if err != nil {
				msg += ": " + err.Error()
			}
			os.WriteFile(filepath.Join(outDir, "native-output-"+strings.ReplaceAll(dir, "/", "_")+".txt"), []byte(out), 0o644)
			notes = append(notes, msg)
			continue
		}
		byCase := map[int]replayResult{}
		for _, r := range res {
			byCase[r.Case] = r
		}
		for i, it := range items {
			r, ok := byCase[i]
			if !ok {
				notes = append(notes, fmt.Sprintf("%s: native replay of case %d missing (crash?)", it.c.Harness, i))
				continue
			}
			if it.viol != nil {
				repro := false
				if it.viol.Kind == "race" {
					repro = r.Race != ""
				} else if it.viol.Kind == "assert" || it.viol.Kind == "alloc" {
					for _, f := range r.Fails {
						if f == it.viol.Label {
							repro = true
						}
					}
				} else if r.Panic != "" {
					repro = true
				}
				if repro {
					nv++
					p := filepath.Join(outDir, fmt.Sprintf("%s-%d.json", it.viol.Harness, nv))
					vb, _ := json.MarshalIndent(map[string]any{"property": opts.Prop, "harness": it.viol.Harness, "label": it.viol.Label,
						"kind": it.viol.Kind, "site": it.viol.Site, "inputs": cleanInputs(it.viol.Inputs), "tags": it.viol.Tags,
						"native": r, "pkg_dir": dir, "events": it.viol.Events}, "", " ")
					os.WriteFile(p, vb, 0o644)
					paths[it.viol] = p
				} else {
					notes = append(notes, fmt.Sprintf("%s: counterexample for %q did not reproduce natively (fails=%v panic=%q assume_fail=%q) -- model or engine suspect",
						it.viol.Harness, it.viol.Label, r.Fails, r.Panic, r.AssumeFail))
				}
				continue
			}
			// cover sample: native must reach the same cover with no failed assertion beyond known ones
			reached := false
			for _, c := range r.Covers {
				if c == it.cover {
					reached = true
				}
			}
			if r.AssumeFail != "" {
				notes = append(notes, fmt.Sprintf("%s: cover sample %q violates an assumption natively (%s)", it.c.Harness, it.cover, r.AssumeFail))
				continue
			}
			if !reached {
				notes = append(notes, fmt.Sprintf("%s: cover sample %q not reached natively (covers=%v panic=%q) -- engine/native divergence", it.c.Harness, it.cover, r.Covers, r.Panic))
				continue
			}
			if r.Race != "" {
				notes = append(notes, fmt.Sprintf("%s: the race detector reported a race on a sample the lock-set analysis passed (%s) -- engine/native divergence", it.c.Harness, r.Race))
				continue
			}
			validated++
		}
	}
	return validated, notes
}

// Replay re-runs a stored violation file natively.
func Replay(path string) int {
	b, err := os.ReadFile(path)
	if err != nil {
		fmt.Fprintln(os.Stderr, err)
		return 2
	}
	var v struct {
		Harness string         `json:"harness"`
		Label   string         `json:"label"`
		Kind    string         `json:"kind"`
		Inputs  map[string]any `json:"inputs"`
		PkgDir  string         `json:"pkg_dir"`
	}
	dec := json.NewDecoder(bytes.NewReader(b))
	dec.UseNumber()
	if err := dec.Decode(&v); err != nil {
		fmt.Fprintln(os.Stderr, err)
		return 2
	}
	dirs := harnessDirs()
	overlay, err := writeOverlayFiles(dirs, filepath.Join(OutRoot, "out", "overlay-replay"))
	if err != nil {
		fmt.Fprintln(os.Stderr, err)
		return 2
	}
	cex := filepath.Join(OutRoot, "out", "replay-one.json")
	cb, _ := json.Marshal([]replayCase{{v.Harness, v.Inputs}})
	os.WriteFile(cex, cb, 0o644)
	res, out, _ := runNative(v.PkgDir, overlay, cex, 10*time.Minute, v.Kind == "race")
	if len(res) == 0 {
		fmt.Println(out)
		fmt.Println("NOT-REPRODUCED (no native result)")
		return 2
	}
	r := res[0]
	repro := r.Panic != "" && v.Kind != "assert" && v.Kind != "race"
	if v.Kind == "race" && r.Race != "" {
		fmt.Println("native race report:", r.Race)
		repro = true
	}
	for _, f := range r.Fails {
		if f == v.Label {
			repro = true
		}
	}
	fmt.Printf("native: covers=%v fails=%v panic=%q assume_fail=%q\n", r.Covers, r.Fails, r.Panic, r.AssumeFail)
	if repro {
		fmt.Println("REPRODUCED")
		return 1
	}
	fmt.Println("NOT-REPRODUCED")
	return 0
}

package gosym

import (
	"net"
	"net/netip"

	"golang.org/x/tools/go/ssa"
)

// Concrete-only models of the address types whose library source the engine cannot
// run (net/netip builds on package unique): a value is an opaque object holding the
// real Go value, and every function is the real one applied to it. A symbolic
// argument makes the run inconclusive.
func registerNetipNatives(in *Interp) {
	n := in.natives
	cstr := func(in *Interp, v Value, what string) string {
		s, ok := in.concreteStr(v.(StrV))
		if !ok {
			panic(what + ": symbolic text is not modelled")
		}
		return s
	}
	host := func(kind string, d interface{}) *ModelObj { return &ModelObj{Kind: kind, Data: d} }
	n["net/netip.ParseAddrPort"] = func(in *Interp, fn *ssa.Function, args []Value) Value {
		ap, err := netip.ParseAddrPort(cstr(in, args[0], "netip.ParseAddrPort"))
		if err != nil {
			return TupleV{host("netip.AddrPort", netip.AddrPort{}), in.newError(err.Error())}
		}
		return TupleV{host("netip.AddrPort", ap), IfaceV{}}
	}
	n["net/netip.ParseAddr"] = func(in *Interp, fn *ssa.Function, args []Value) Value {
		a, err := netip.ParseAddr(cstr(in, args[0], "netip.ParseAddr"))
		if err != nil {
			return TupleV{host("netip.Addr", netip.Addr{}), in.newError(err.Error())}
		}
		return TupleV{host("netip.Addr", a), IfaceV{}}
	}
	n["(net/netip.AddrPort).Addr"] = func(in *Interp, fn *ssa.Function, args []Value) Value {
		return host("netip.Addr", args[0].(*ModelObj).Data.(netip.AddrPort).Addr())
	}
	n["(net/netip.AddrPort).Port"] = func(in *Interp, fn *ssa.Function, args []Value) Value {
		return in.tb.Const(16, uint64(args[0].(*ModelObj).Data.(netip.AddrPort).Port()))
	}
	n["(net/netip.AddrPort).String"] = func(in *Interp, fn *ssa.Function, args []Value) Value {
		return in.strConst(args[0].(*ModelObj).Data.(netip.AddrPort).String())
	}
	n["(net/netip.AddrPort).IsValid"] = func(in *Interp, fn *ssa.Function, args []Value) Value {
		return in.tb.Bool(args[0].(*ModelObj).Data.(netip.AddrPort).IsValid())
	}
	n["(net/netip.Addr).String"] = func(in *Interp, fn *ssa.Function, args []Value) Value {
		return in.strConst(args[0].(*ModelObj).Data.(netip.Addr).String())
	}
	n["(net/netip.Addr).IsValid"] = func(in *Interp, fn *ssa.Function, args []Value) Value {
		return in.tb.Bool(args[0].(*ModelObj).Data.(netip.Addr).IsValid())
	}
	n["(net/netip.Addr).Unmap"] = func(in *Interp, fn *ssa.Function, args []Value) Value {
		return host("netip.Addr", args[0].(*ModelObj).Data.(netip.Addr).Unmap())
	}
	n["net.TCPAddrFromAddrPort"] = func(in *Interp, fn *ssa.Function, args []Value) Value {
		ta := net.TCPAddrFromAddrPort(args[0].(*ModelObj).Data.(netip.AddrPort))
		o := in.newObj(host("net.TCPAddr", ta), nil, "tcpaddr")
		return Ptr{Obj: o}
	}
	tcpString := func(in *Interp, fn *ssa.Function, args []Value) Value {
		p := args[0].(Ptr)
		if p.Obj == nil {
			return in.strConst("<nil>")
		}
		if mo, ok := p.Obj.Val.(*ModelObj); ok && mo.Kind == "net.TCPAddr" {
			return in.strConst(mo.Data.(*net.TCPAddr).String())
		}
		panic("(*net.TCPAddr).String on an address not built by a modelled constructor")
	}
	n["(*net.TCPAddr).String"] = tcpString
	n["(*net.TCPAddr).Network"] = func(in *Interp, fn *ssa.Function, args []Value) Value { return in.strConst("tcp") }
}

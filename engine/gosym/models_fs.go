package gosym

import (
	"encoding/json"
	"fmt"
	"go/types"
	"sort"
	"strings"

	"golang.org/x/tools/go/ssa"
)

// A small filesystem model (used by the C18 harnesses). The tree is a list of
// nodes keyed by absolute path; paths are compared as strings (concrete paths
// cost nothing, a symbolic path forks on equality with each node). Directories
// report link count 2 + number of child directories, files 1. Every object is
// owned by the effective uid, which is 0 and is called "root" (the native replay
// runs as whoever it runs as and looks the name up the same way).
//
// Modelled: os.Mkdir, MkdirAll is not; os.MkdirTemp (fresh name = prefix +
// counter), os.Remove, os.RemoveAll, os.Chmod, os.Symlink, os.WriteFile,
// os.Lstat, os.Stat (follows links), os.ReadDir (names only), os.OpenRoot and
// (*os.Root).Mkdir/Remove/Close (single-component names only; anything else is
// refused as an escape), FileInfo.Mode/IsDir/Name/Sys (*syscall.Stat_t with
// Nlink, Uid, Mode), os/user.LookupId / Current, os.Geteuid / Getuid.

const (
	fsDir = iota + 1
	fsFile
	fsLink
)

type fsNode struct {
	path   StrV
	cpath  string // concrete path when known
	conc   bool
	kind   int
	perm   *Term // BV32
	target StrV
	live   bool
	root   *fsNode // directory the node was created in through an os.Root (symbolic names)
	data   *ByteMem // file content
	size   *Term    // file size (64-bit)
}

// an open file: the node and a read/write position
type fsOpen struct {
	node *fsNode
	pos  *Term
}

type fsDirent struct {
	name StrV
	node *fsNode
}

type fsEvent struct {
	op   string
	path StrV
}

type fsModel struct {
	nodes []*fsNode
	tmpN  int
	log   []fsEvent
}

type fsInfo struct {
	node *fsNode
	name string
	nlnk int
}

func (in *Interp) fsm() *fsModel {
	if in.fs == nil {
		in.fs = &fsModel{}
		// the base directory exists
		in.fs.nodes = append(in.fs.nodes, &fsNode{path: in.strConst("/tmp"), cpath: "/tmp", conc: true, kind: fsDir, perm: in.tb.Const(32, 0o1777), live: true})
	}
	return in.fs
}

func (in *Interp) fsFind(p StrV) *fsNode {
	m := in.fsm()
	cp, conc := in.concreteStr(p)
	for _, n := range m.nodes {
		if !n.live {
			continue
		}
		if conc && n.conc {
			if cp == n.cpath {
				return n
			}
			continue
		}
		if in.branch(in.strEq(p, n.path)) {
			return n
		}
	}
	return nil
}

func (in *Interp) fsAdd(p StrV, kind int, perm *Term, target StrV) *fsNode {
	cp, conc := in.concreteStr(p)
	n := &fsNode{path: p, cpath: cp, conc: conc, kind: kind, perm: perm, target: target, live: true}
	in.fsm().nodes = append(in.fsm().nodes, n)
	return n
}

func (in *Interp) fsChildren(n *fsNode, dirsOnly bool) []*fsNode {
	var out []*fsNode
	if !n.conc {
		return nil
	}
	pre := n.cpath + "/"
	for _, c := range in.fsm().nodes {
		if !c.live || !c.conc || !strings.HasPrefix(c.cpath, pre) || strings.Contains(c.cpath[len(pre):], "/") {
			continue
		}
		if dirsOnly && c.kind != fsDir {
			continue
		}
		out = append(out, c)
	}
	return out
}

func (in *Interp) fsParentOK(p StrV) bool {
	cp, conc := in.concreteStr(p)
	if !conc {
		return true // symbolic paths are only created through a Root, whose base exists
	}
	i := strings.LastIndex(cp, "/")
	if i <= 0 {
		return true
	}
	par := in.fsFind(in.strConst(cp[:i]))
	return par != nil && par.kind == fsDir
}

func (in *Interp) fsErr(op, what string) IfaceV {
	return in.newError(op + ": " + what)
}

func (in *Interp) fsResolve(p StrV) *fsNode {
	n := in.fsFind(p)
	for i := 0; n != nil && n.kind == fsLink && i < 8; i++ {
		n = in.fsFind(n.target)
	}
	if n != nil && n.kind == fsLink {
		return nil
	}
	return n
}

func (in *Interp) fsInfoOf(n *fsNode) IfaceV {
	name := ""
	if n.conc {
		name = n.cpath[strings.LastIndex(n.cpath, "/")+1:]
	}
	nl := 1
	if n.kind == fsDir {
		nl = 2 + len(in.fsChildren(n, true))
	}
	return in.modelIface("fileinfo", &fsInfo{node: n, name: name, nlnk: nl})
}

func (in *Interp) fsMode(n *fsNode) *Term {
	tb := in.tb
	switch n.kind {
	case fsDir:
		return tb.BOr(tb.Const(32, 1<<31), n.perm)
	case fsLink:
		return tb.Const(32, 1<<27|0o777)
	}
	return n.perm
}

func (in *Interp) namedType(pkg, name string) types.Type {
	for _, p := range in.prog.AllPackages() {
		if p.Pkg.Path() == pkg {
			if t := p.Type(name); t != nil {
				return t.Type()
			}
		}
	}
	panic("type not found: " + pkg + "." + name)
}

func (in *Interp) setField(v Value, t types.Type, field string, nv Value) {
	st := t.Underlying().(*types.Struct)
	for i := 0; i < st.NumFields(); i++ {
		if st.Field(i).Name() == field {
			v.(*StructV).F[i] = nv
			return
		}
	}
	panic("no field " + field)
}

func (in *Interp) fsFileInfoMethod(fi *fsInfo, name string, args []Value) Value {
	tb := in.tb
	switch name {
	case "Mode":
		return in.fsMode(fi.node)
	case "IsDir":
		return tb.Bool(fi.node.kind == fsDir)
	case "Name":
		return in.strConst(fi.name)
	case "Size":
		if fi.node.size != nil {
			return fi.node.size
		}
		return tb.Int(0)
	case "Sys":
		t := in.namedType("syscall", "Stat_t")
		sv := in.zero(t)
		st := t.Underlying().(*types.Struct)
		for i := 0; i < st.NumFields(); i++ {
			f := st.Field(i)
			w, _, _ := intWidth(f.Type())
			switch f.Name() {
			case "Nlink":
				sv.(*StructV).F[i] = tb.Const(w, uint64(fi.nlnk))
			case "Uid", "Gid":
				sv.(*StructV).F[i] = tb.Const(w, 0)
			case "Mode":
				m := in.fsMode(fi.node)
				kindBits := uint64(0o100000)
				if fi.node.kind == fsDir {
					kindBits = 0o040000
				} else if fi.node.kind == fsLink {
					kindBits = 0o120000
				}
				sv.(*StructV).F[i] = tb.BOr(tb.Const(32, kindBits), tb.BAnd(m, tb.Const(32, 0o7777)))
			}
		}
		o := in.newObj(sv, t, "stat_t")
		return IfaceV{T: types.NewPointer(t), V: Ptr{Obj: o}}
	}
	panic("fileinfo method " + name + " not modelled")
}

func registerFSNatives(in *Interp) {
	n := in.natives
	tb := in.tb
	nilErr := IfaceV{}
	perm32 := func(v Value) *Term { return tb.BAnd(v.(*Term), tb.Const(32, 0o7777)) }
	n["os.Geteuid"] = func(in *Interp, fn *ssa.Function, args []Value) Value { return in.tb.Int(0) }
	n["os.Getuid"] = n["os.Geteuid"]
	n["os.Mkdir"] = func(in *Interp, fn *ssa.Function, args []Value) Value {
		p := args[0].(StrV)
		if in.fsFind(p) != nil {
			return in.fsErr("mkdir", "file exists")
		}
		if !in.fsParentOK(p) {
			return in.fsErr("mkdir", "no such file or directory")
		}
		in.fsAdd(p, fsDir, perm32(args[1]), StrV{})
		in.fsm().log = append(in.fsm().log, fsEvent{"mkdir", p})
		return nilErr
	}
	n["os.MkdirTemp"] = func(in *Interp, fn *ssa.Function, args []Value) Value {
		dir, ok1 := in.concreteStr(args[0].(StrV))
		pat, ok2 := in.concreteStr(args[1].(StrV))
		if !ok1 || !ok2 {
			panic("os.MkdirTemp with a symbolic directory or pattern is not modelled")
		}
		if dir == "" {
			dir = "/tmp"
		}
		pre, suf := pat, ""
		if i := strings.LastIndex(pat, "*"); i >= 0 {
			pre, suf = pat[:i], pat[i+1:]
		}
		m := in.fsm()
		m.tmpN++
		p := in.strConst(fmt.Sprintf("%s/%s%09d%s", dir, pre, 100000000+m.tmpN, suf))
		in.fsAdd(p, fsDir, in.tb.Const(32, 0o700), StrV{})
		return TupleV{p, nilErr}
	}
	remove := func(in *Interp, p StrV, all bool) IfaceV {
		nd := in.fsFind(p)
		if nd == nil {
			if all {
				return nilErr
			}
			return in.fsErr("remove", "no such file or directory")
		}
		if nd.kind == fsDir {
			ch := in.fsChildren(nd, false)
			if len(ch) > 0 && !all {
				return in.fsErr("remove", "directory not empty")
			}
			for _, c := range ch {
				c.live = false
			}
		}
		nd.live = false
		in.fsm().log = append(in.fsm().log, fsEvent{"remove", p})
		return nilErr
	}
	n["os.Remove"] = func(in *Interp, fn *ssa.Function, args []Value) Value { return remove(in, args[0].(StrV), false) }
	n["os.RemoveAll"] = func(in *Interp, fn *ssa.Function, args []Value) Value { return remove(in, args[0].(StrV), true) }
	n["os.Chmod"] = func(in *Interp, fn *ssa.Function, args []Value) Value {
		nd := in.fsResolve(args[0].(StrV))
		if nd == nil {
			return in.fsErr("chmod", "no such file or directory")
		}
		nd.perm = perm32(args[1])
		return nilErr
	}
	n["os.Symlink"] = func(in *Interp, fn *ssa.Function, args []Value) Value {
		p := args[1].(StrV)
		if in.fsFind(p) != nil {
			return in.fsErr("symlink", "file exists")
		}
		in.fsAdd(p, fsLink, in.tb.Const(32, 0o777), args[0].(StrV))
		in.fsm().log = append(in.fsm().log, fsEvent{"symlink", p})
		return nilErr
	}
	n["os.WriteFile"] = func(in *Interp, fn *ssa.Function, args []Value) Value {
		p := args[0].(StrV)
		nd := in.fsFind(p)
		if nd != nil && nd.kind == fsDir {
			return in.fsErr("open", "is a directory")
		}
		if nd == nil {
			in.fsAdd(p, fsFile, perm32(args[2]), StrV{})
			in.fsm().log = append(in.fsm().log, fsEvent{"create", p})
			nd = in.fsFind(p)
		}
		if b, ok := args[1].(SliceV); ok && nd != nil {
			nd.data = in.memCopy(zeroMem, in.tb.Int(0), in.sliceMem(b), b.Off, b.Len)
			nd.size = b.Len
		}
		return nilErr
	}
	// regular files with content: os.Create / os.Open / os.ReadFile and the *os.File
	// methods Write, Read, Close, Stat, Name (sequential access only)
	openFile := func(in *Interp, nd *fsNode) Value {
		o := in.newObj(in.newModel("osfile", &fsOpen{node: nd, pos: in.tb.Int(0)}), nil, "osfile")
		return Ptr{Obj: o}
	}
	fileOf := func(in *Interp, v Value) *fsOpen {
		p := v.(Ptr)
		if p.Obj == nil {
			in.nilDeref()
		}
		return p.Obj.Val.(*ModelObj).Data.(*fsOpen)
	}
	n["os.Create"] = func(in *Interp, fn *ssa.Function, args []Value) Value {
		p := args[0].(StrV)
		nd := in.fsResolve(p)
		if nd != nil && nd.kind == fsDir {
			return TupleV{Ptr{}, in.fsErr("open", "is a directory")}
		}
		if nd == nil {
			in.fsAdd(p, fsFile, in.tb.Const(32, 0o644), StrV{})
			in.fsm().log = append(in.fsm().log, fsEvent{"create", p})
			nd = in.fsFind(p)
		}
		nd.data, nd.size = zeroMem, in.tb.Int(0)
		return TupleV{openFile(in, nd), nilErr}
	}
	n["os.Open"] = func(in *Interp, fn *ssa.Function, args []Value) Value {
		nd := in.fsResolve(args[0].(StrV))
		if nd == nil {
			return TupleV{Ptr{}, in.fsErr("open", "no such file or directory")}
		}
		if nd.data == nil {
			nd.data, nd.size = zeroMem, in.tb.Int(0)
		}
		return TupleV{openFile(in, nd), nilErr}
	}
	n["(*os.File).Write"] = func(in *Interp, fn *ssa.Function, args []Value) Value {
		f := fileOf(in, args[0])
		b := args[1].(SliceV)
		f.node.data = in.memCopy(f.node.data, f.pos, in.sliceMem(b), b.Off, b.Len)
		f.pos = in.tb.Add(f.pos, b.Len)
		f.node.size = in.tb.Ite(in.tb.SLt(f.node.size, f.pos), f.pos, f.node.size)
		return TupleV{b.Len, nilErr}
	}
	n["(*os.File).Read"] = func(in *Interp, fn *ssa.Function, args []Value) Value {
		f := fileOf(in, args[0])
		b := args[1].(SliceV)
		left := in.tb.Sub(f.node.size, f.pos)
		if in.branch(in.tb.SLe(left, in.tb.Int(0))) {
			return TupleV{in.tb.Int(0), in.ioEOF()}
		}
		nn := in.tb.Ite(in.tb.SLt(left, b.Len), left, b.Len)
		so := in.newObj(f.node.data, nil, "filedata")
		in.copyOp(b, SliceV{Base: Ptr{Obj: so}, Off: f.pos, Len: nn, Cap: nn, Byte: true, Max: b.Max})
		f.pos = in.tb.Add(f.pos, nn)
		return TupleV{nn, nilErr}
	}
	n["(*os.File).Close"] = func(in *Interp, fn *ssa.Function, args []Value) Value { return nilErr }
	n["(*os.File).Sync"] = n["(*os.File).Close"]
	n["(*os.File).Stat"] = func(in *Interp, fn *ssa.Function, args []Value) Value {
		return TupleV{in.fsInfoOf(fileOf(in, args[0]).node), nilErr}
	}
	n["os.ReadFile"] = func(in *Interp, fn *ssa.Function, args []Value) Value {
		nd := in.fsResolve(args[0].(StrV))
		if nd == nil || nd.kind != fsFile {
			return TupleV{in.zero(fn.Signature.Results().At(0).Type()), in.fsErr("open", "no such file or directory")}
		}
		if nd.data == nil {
			nd.data, nd.size = zeroMem, in.tb.Int(0)
		}
		o := in.newObj(nd.data, nil, "filedata")
		mx := -1
		if nd.size.IsConst() {
			mx = int(nd.size.V)
		}
		return TupleV{SliceV{Base: Ptr{Obj: o}, Off: in.tb.Int(0), Len: nd.size, Cap: nd.size, Byte: true, Max: mx}, nilErr}
	}
	n["os.Lstat"] = func(in *Interp, fn *ssa.Function, args []Value) Value {
		nd := in.fsFind(args[0].(StrV))
		if nd == nil {
			return TupleV{IfaceV{}, in.fsErr("lstat", "no such file or directory")}
		}
		return TupleV{in.fsInfoOf(nd), nilErr}
	}
	n["os.Stat"] = func(in *Interp, fn *ssa.Function, args []Value) Value {
		nd := in.fsResolve(args[0].(StrV))
		if nd == nil {
			return TupleV{IfaceV{}, in.fsErr("stat", "no such file or directory")}
		}
		return TupleV{in.fsInfoOf(nd), nilErr}
	}
	// os.Root: creation and removal confined to one directory
	n["os.OpenRoot"] = func(in *Interp, fn *ssa.Function, args []Value) Value {
		nd := in.fsResolve(args[0].(StrV))
		if nd == nil || nd.kind != fsDir {
			return TupleV{Ptr{}, in.fsErr("openroot", "no such directory")}
		}
		o := in.newObj(in.newModel("osroot", nd), nil, "osroot")
		return TupleV{Ptr{Obj: o}, nilErr}
	}
	rootPath := func(in *Interp, r Ptr, name StrV) (StrV, bool) {
		if r.Obj == nil {
			in.nilDeref()
		}
		base := r.Obj.Val.(*ModelObj).Data.(*fsNode)
		// a single path component that is not "." or "..": anything else may leave
		// the root and is refused (os.Root refuses escapes; names that stay inside
		// through deeper paths are not needed by the code under test)
		tb := in.tb
		bad := tb.Eq(name.Len, tb.Int(0))
		bad = tb.Or(bad, in.strEq(name, in.strConst(".")))
		bad = tb.Or(bad, in.strEq(name, in.strConst("..")))
		slash := in.indexByte(name.Mem, name.Off, name.Len, name.Max, tb.Const(8, '/')).(*Term)
		bad = tb.Or(bad, tb.SLe(tb.Int(0), slash))
		if in.branch(bad) {
			return StrV{}, false
		}
		return in.strConcat(in.strConcat(base.path, in.strConst("/")), name), true
	}
	n["(*os.Root).Mkdir"] = func(in *Interp, fn *ssa.Function, args []Value) Value {
		p, ok := rootPath(in, args[0].(Ptr), args[1].(StrV))
		if !ok {
			return in.fsErr("mkdirat", "path escapes from parent")
		}
		if in.fsFind(p) != nil {
			return in.fsErr("mkdirat", "file exists")
		}
		nd := in.fsAdd(p, fsDir, perm32(args[2]), StrV{})
		nd.root = args[0].(Ptr).Obj.Val.(*ModelObj).Data.(*fsNode)
		in.fsm().log = append(in.fsm().log, fsEvent{"mkdir", p})
		return nilErr
	}
	n["(*os.Root).Remove"] = func(in *Interp, fn *ssa.Function, args []Value) Value {
		p, ok := rootPath(in, args[0].(Ptr), args[1].(StrV))
		if !ok {
			return in.fsErr("unlinkat", "path escapes from parent")
		}
		return remove(in, p, false)
	}
	n["(*os.Root).Close"] = func(in *Interp, fn *ssa.Function, args []Value) Value { return nilErr }
	n["os.ReadDir"] = func(in *Interp, fn *ssa.Function, args []Value) Value {
		nd := in.fsResolve(args[0].(StrV))
		if nd == nil || nd.kind != fsDir || !nd.conc {
			return TupleV{SliceV{Nil: true, Off: in.tb.Int(0), Len: in.tb.Int(0), Cap: in.tb.Int(0)}, in.fsErr("readdir", "no such directory")}
		}
		// children: concrete-path nodes directly below, and symbolic-path nodes
		// (created through a Root on this directory), whose name is the path
		// behind the directory prefix
		var elems []Value
		pre := nd.cpath + "/"
		for _, c := range in.fsm().nodes {
			if !c.live || c == nd {
				continue
			}
			var name StrV
			if c.conc {
				if !strings.HasPrefix(c.cpath, pre) || strings.Contains(c.cpath[len(pre):], "/") {
					continue
				}
				name = in.strConst(c.cpath[len(pre):])
			} else if c.root == nd {
				k := in.tb.Int(int64(len(pre)))
				name = StrV{Mem: c.path.Mem, Off: in.tb.Add(c.path.Off, k), Len: in.tb.Sub(c.path.Len, k), Max: -1}
				if c.path.Max >= 0 {
					name.Max = c.path.Max - len(pre)
				}
			} else {
				continue
			}
			elems = append(elems, in.modelIface("direntry", &fsDirent{name: name, node: c}))
		}
		k := in.tb.Int(int64(len(elems)))
		o := in.newObj(&ArrayV{E: elems}, nil, "dirents")
		return TupleV{SliceV{Base: Ptr{Obj: o}, Off: in.tb.Int(0), Len: k, Cap: k, Max: len(elems)}, nilErr}
	}
	lookup := func(in *Interp, fn *ssa.Function, uid StrV) Value {
		pt := fn.Signature.Results().At(0).Type().(*types.Pointer)
		ut := pt.Elem()
		if !in.branch(in.strEq(uid, in.strConst("0"))) {
			return TupleV{Ptr{}, in.newError("user: unknown userid")}
		}
		u := in.zero(ut)
		in.setField(u, ut, "Uid", in.strConst("0"))
		in.setField(u, ut, "Gid", in.strConst("0"))
		in.setField(u, ut, "Username", in.strConst("root"))
		in.setField(u, ut, "HomeDir", in.strConst("/root"))
		return TupleV{Ptr{Obj: in.newObj(u, ut, "user")}, IfaceV{}}
	}
	n["os/user.LookupId"] = func(in *Interp, fn *ssa.Function, args []Value) Value { return lookup(in, fn, args[0].(StrV)) }
	n["os/user.Current"] = func(in *Interp, fn *ssa.Function, args []Value) Value { return lookup(in, fn, in.strConst("0")) }

	// encoding/json.Unmarshal of a CONCRETE document into *map[string]interface{}
	// (what the token code does with JWT headers and payloads): decoded by the real
	// encoding/json inside the engine and rebuilt as engine values. Symbolic
	// documents are not modelled.
	n["encoding/json.Unmarshal"] = func(in *Interp, fn *ssa.Function, args []Value) Value {
		data := args[0].(SliceV)
		if !data.Len.IsConst() || !data.Off.IsConst() {
			panic("json.Unmarshal of a symbolic-length document is not modelled")
		}
		raw := make([]byte, data.Len.V)
		m := in.sliceMem(data)
		for i := range raw {
			b := in.memRead(m, in.tb.Add(data.Off, in.tb.Int(int64(i))))
			if !b.IsConst() {
				panic("json.Unmarshal of a symbolic document is not modelled")
			}
			raw[i] = byte(b.V)
		}
		dst, ok := args[1].(IfaceV)
		if !ok || dst.T == nil {
			return in.newError("json: Unmarshal(nil)")
		}
		pt, okp := dst.T.(*types.Pointer)
		if !okp {
			panic("json.Unmarshal: destination is not a pointer")
		}
		mt, okm := pt.Elem().Underlying().(*types.Map)
		if !okm {
			panic("json.Unmarshal: only *map[string]interface{} destinations are modelled")
		}
		var doc map[string]interface{}
		if err := json.Unmarshal(raw, &doc); err != nil {
			return in.newError("json: " + err.Error())
		}
		in.store(dst.V.(Ptr), in.jsonValue(doc, pt.Elem(), mt).(IfaceV).V)
		return IfaceV{}
	}

	// vFSCreated(kind): number of objects the code created ("mkdir", "symlink",
	// "create") since the model was set up, counting harness-made ones too.
	in.intrinsicsExtra["vFSEvents"] = func(in *Interp, args []Value) Value {
		op := in.argStr(args[0])
		c := 0
		for _, e := range in.fsm().log {
			if e.op == op {
				c++
			}
		}
		return in.tb.Int(int64(c))
	}
}

// jsonValue rebuilds a decoded JSON value as the interface value Go's decoder
// would have produced (string, float64, bool, nil, map[string]interface{},
// []interface{}).
func (in *Interp) jsonValue(v interface{}, mapT types.Type, mt *types.Map) Value {
	switch x := v.(type) {
	case nil:
		return IfaceV{}
	case string:
		return IfaceV{T: types.Typ[types.String], V: in.strConst(x)}
	case float64:
		return IfaceV{T: types.Typ[types.Float64], V: in.tb.FPConst(f64bits(x))}
	case bool:
		return IfaceV{T: types.Typ[types.Bool], V: in.tb.Bool(x)}
	case map[string]interface{}:
		m := MapV{Obj: in.newObj(&MapData{}, mapT, "map")}
		keys := make([]string, 0, len(x))
		for k := range x {
			keys = append(keys, k)
		}
		sort.Strings(keys)
		for _, k := range keys {
			in.mapUpdate(m, in.strConst(k), in.jsonValue(x[k], mapT, mt))
		}
		return IfaceV{T: mapT, V: m}
	case []interface{}:
		elems := make([]Value, len(x))
		for i, e := range x {
			elems[i] = in.jsonValue(e, mapT, mt)
		}
		st := types.NewSlice(mt.Elem())
		o := in.newObj(&ArrayV{E: elems}, nil, "jsonarray")
		n := in.tb.Int(int64(len(elems)))
		return IfaceV{T: st, V: SliceV{Base: Ptr{Obj: o}, Off: in.tb.Int(0), Len: n, Cap: n, Max: len(elems)}}
	}
	panic(fmt.Sprintf("json value %T", v))
}

// ioEOF is the library's io.EOF sentinel (the package variable, so comparisons with
// it in the code under test hold).
func (in *Interp) ioEOF() Value {
	for _, p := range in.prog.AllPackages() {
		if p.Pkg.Path() == "io" {
			g := p.Var("EOF")
			return in.load(Ptr{Obj: in.global(g)})
		}
	}
	panic("package io not loaded")
}

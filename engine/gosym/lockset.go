package gosym

import (
	"fmt"
	"go/types"
	"sort"
	"strings"

	"golang.org/x/tools/go/ssa"
)

// Lock-set tracking (used only by the C17 harnesses). While tracking is on, every
// load/store of a struct field or map of a heap object is logged with the set of
// mutexes held (and whether each is held for writing). Two logged operations
// conflict when they touch the same location, at least one writes, and no mutex
// is held by both with at least one of them holding it for writing.

type access struct {
	loc   string
	write bool
	locks map[string]byte // 'W' or 'R'
	fn    string
}

type tlsModel struct {
	conn   IfaceV
	client bool
}

type trackState struct {
	cur  int
	logs map[int][]access
	seen map[string]bool
}

func lockKey(p Ptr) string { return fmt.Sprintf("%d%v", p.Obj.ID, p.Path) }

func (in *Interp) lockOp(p Ptr, mode byte, acquire bool) {
	if p.Obj == nil {
		in.nilDeref()
	}
	if in.held == nil {
		in.held = map[string][]byte{}
	}
	k := lockKey(p)
	if acquire {
		in.held[k] = append(in.held[k], mode)
		return
	}
	if n := len(in.held[k]); n > 0 {
		in.held[k] = in.held[k][:n-1]
		if n == 1 {
			delete(in.held, k)
		}
	}
}

func (in *Interp) noteAccess(p Ptr, write bool) {
	if in.track == nil || in.track.cur < 0 || p.Obj == nil || len(p.Path) == 0 {
		return
	}
	st, ok := p.Obj.Typ.(types.Type)
	if !ok || st == nil {
		return
	}
	s, ok := st.Underlying().(*types.Struct)
	if !ok || p.Path[0] >= s.NumFields() {
		return
	}
	f := s.Field(p.Path[0])
	if strings.Contains(f.Type().String(), "sync.") {
		return
	}
	in.recordAccess(fmt.Sprintf("%s.%s#%d", typeShort(st), f.Name(), p.Obj.ID), write)
}

func typeShort(t types.Type) string {
	s := t.String()
	if i := strings.LastIndex(s, "/"); i >= 0 {
		s = s[i+1:]
	}
	return s
}

func (in *Interp) noteMapAccess(m MapV, write bool) {
	if in.track == nil || in.track.cur < 0 || m.Obj == nil {
		return
	}
	in.recordAccess(fmt.Sprintf("map#%d", m.Obj.ID), write)
}

func (in *Interp) recordAccess(loc string, write bool) {
	if in.initDepth > 0 {
		// package initialisers run lazily in the engine; in a real program they
		// happen before main and before every goroutine
		return
	}
	locks := map[string]byte{}
	for k, modes := range in.held {
		m := byte('R')
		for _, x := range modes {
			if x == 'W' {
				m = 'W'
			}
		}
		locks[k] = m
	}
	fn := ""
	if len(in.curFn) > 0 {
		fn = in.curFn[len(in.curFn)-1].String()
	}
	key := fmt.Sprintf("%d|%s|%v|%v", in.track.cur, loc, write, locks)
	if in.track.seen[key] {
		return
	}
	in.track.seen[key] = true
	in.track.logs[in.track.cur] = append(in.track.logs[in.track.cur], access{loc, write, locks, fn})
}

func protected(a, b access) bool {
	for k, ma := range a.locks {
		if mb, ok := b.locks[k]; ok && (ma == 'W' || mb == 'W') {
			return true
		}
	}
	return false
}

func (in *Interp) locksetConflicts(i, j int) []string {
	var out []string
	if in.track == nil {
		return nil
	}
	seen := map[string]bool{}
	for _, a := range in.track.logs[i] {
		for _, b := range in.track.logs[j] {
			if a.loc != b.loc || (!a.write && !b.write) || protected(a, b) {
				continue
			}
			loc := a.loc
			if k := strings.Index(loc, "#"); k >= 0 {
				loc = loc[:k]
			}
			d := fmt.Sprintf("%s: %s %s vs %s %s with no common lock", loc, rw(a.write), shortFn(a.fn), rw(b.write), shortFn(b.fn))
			if !seen[d] {
				seen[d] = true
				out = append(out, d)
			}
		}
	}
	sort.Strings(out)
	return out
}

func rw(w bool) string {
	if w {
		return "write in"
	}
	return "read in"
}

func shortFn(s string) string {
	if i := strings.LastIndex(s, "/"); i >= 0 {
		s = s[i+1:]
	}
	return s
}

func registerLocksetNatives(in *Interp) {
	n := in.natives
	lock := func(mode byte, acquire bool) nativeFn {
		return func(in *Interp, fn *ssa.Function, args []Value) Value {
			in.lockOp(args[0].(Ptr), mode, acquire)
			return nil
		}
	}
	n["(*sync.Mutex).Lock"] = lock('W', true)
	n["(*sync.Mutex).Unlock"] = lock('W', false)
	n["(*sync.RWMutex).Lock"] = lock('W', true)
	n["(*sync.RWMutex).Unlock"] = lock('W', false)
	n["(*sync.RWMutex).RLock"] = lock('R', true)
	n["(*sync.RWMutex).RUnlock"] = lock('R', false)
	// crypto/ecdh key generation: the k-th key generated on a path has the public
	// encoding 0x04 || k^64 (distinct keys have distinct encodings; nothing else
	// about the curve is modelled -- the Diffie-Hellman computation itself is a
	// harness seam).
	n["crypto/ecdh.P256"] = func(in *Interp, fn *ssa.Function, args []Value) Value {
		return in.modelIface("ecdhcurve", nil)
	}
	n["(*crypto/ecdh.PrivateKey).PublicKey"] = func(in *Interp, fn *ssa.Function, args []Value) Value {
		p := args[0].(Ptr)
		if p.Obj == nil {
			in.nilDeref()
		}
		return Ptr{Obj: in.newObj(p.Obj.Val, nil, "ecdhpub")}
	}
	n["(*crypto/ecdh.PublicKey).Bytes"] = func(in *Interp, fn *ssa.Function, args []Value) Value {
		p := args[0].(Ptr)
		if p.Obj == nil {
			in.nilDeref()
		}
		k := p.Obj.Val.(*ModelObj).Data.(int)
		b := make([]byte, 65)
		b[0] = 4
		for i := 1; i < 65; i++ {
			b[i] = byte(k)
		}
		o := in.newObj(constMem(b), nil, "ecdhpubbytes")
		return SliceV{Base: Ptr{Obj: o}, Off: in.tb.Int(0), Len: in.tb.Int(65), Cap: in.tb.Int(65), Byte: true, Max: 65}
	}
	// crypto/tls over a caller-supplied net.Conn (cedar tunnels TLS records through
	// CEDAR messages): only the I/O pattern of the handshake is modelled -- the
	// client writes then reads, the server reads then writes, each once, through the
	// connection it was given; the first error ends the handshake. Nothing of the
	// TLS state machine, certificates or keys is modelled.
	mkTLS := func(client bool) nativeFn {
		return func(in *Interp, fn *ssa.Function, args []Value) Value {
			return Ptr{Obj: in.newObj(in.newModel("tlsconn", &tlsModel{conn: args[0].(IfaceV), client: client}), nil, "tlsconn")}
		}
	}
	n["crypto/tls.Client"] = mkTLS(true)
	n["crypto/tls.Server"] = mkTLS(false)
	tlsIO := func(in *Interp, p Ptr) Value {
		if p.Obj == nil {
			in.nilDeref()
		}
		tm := p.Obj.Val.(*ModelObj).Data.(*tlsModel)
		callConn := func(method string) IfaceV {
			f := in.prog.LookupMethod(tm.conn.T, nil, method)
			if f == nil {
				panic("tls model: connection has no " + method)
			}
			o := in.newObj(zeroMem, nil, "tlsbuf")
			buf := SliceV{Base: Ptr{Obj: o}, Off: in.tb.Int(0), Len: in.tb.Int(16), Cap: in.tb.Int(16), Byte: true, Max: 16}
			r := in.call(f, []Value{tm.conn.V, buf}).(TupleV)
			return r[1].(IfaceV)
		}
		order := []string{"Read", "Write"}
		if tm.client {
			order = []string{"Write", "Read"}
		}
		for _, m := range order {
			if e := callConn(m); e.T != nil {
				return e
			}
		}
		return IfaceV{}
	}
	n["(*crypto/tls.Conn).Handshake"] = func(in *Interp, fn *ssa.Function, args []Value) Value { return tlsIO(in, args[0].(Ptr)) }
	n["(*crypto/tls.Conn).HandshakeContext"] = func(in *Interp, fn *ssa.Function, args []Value) Value {
		return tlsIO(in, args[0].(Ptr))
	}
	n["(*crypto/tls.Conn).ConnectionState"] = func(in *Interp, fn *ssa.Function, args []Value) Value {
		return in.zero(fn.Signature.Results().At(0).Type()) // nothing negotiated is modelled
	}
	in.intrinsicsExtra["vTrackBegin"] = func(in *Interp, args []Value) Value {
		if in.track == nil {
			in.track = &trackState{logs: map[int][]access{}, seen: map[string]bool{}}
		}
		in.track.cur = int(args[0].(*Term).V)
		return nil
	}
	in.intrinsicsExtra["vTrackEnd"] = func(in *Interp, args []Value) Value {
		if in.track != nil {
			in.track.cur = -1
		}
		return nil
	}
	// vRealBuffer(true): bytes.Buffer's Write/WriteByte/WriteString/Grow run from the
	// library's source (real capacity growth, real reuse of the storage that slices
	// handed out by Next/Bytes alias) instead of the re-allocating model
	in.intrinsicsExtra["vRealBuffer"] = func(in *Interp, args []Value) Value {
		in.realBuffer = args[0].(*Term) == in.tb.True
		return nil
	}
	in.intrinsicsExtra["vIsNative"] = func(in *Interp, args []Value) Value { return in.tb.False }
	in.intrinsicsExtra["vAssertNoLocksetConflict"] = func(in *Interp, args []Value) Value {
		i, j := int(args[0].(*Term).V), int(args[1].(*Term).V)
		label := in.argStr(args[2])
		cs := in.locksetConflicts(i, j)
		in.stats.Obligations++
		if len(cs) == 0 {
			in.stats.Discharged++
			return nil
		}
		in.event("lockset: %s", strings.Join(cs, " | "))
		in.reportViolation("race", label, strings.Join(cs, " | "), nil)
		return nil
	}
}

package gosym

import (
	"fmt"
	"math/bits"
	"strings"
)

// Sorts ---------------------------------------------------------------

type Kind uint8

const (
	KBool Kind = iota
	KBV
	KArr // (Array (_ BitVec 64) (_ BitVec 8))
	KFP  // Float64
)

type Sort struct {
	K Kind
	W int
}

var (
	SBool = Sort{KBool, 0}
	SArr  = Sort{KArr, 0}
	SFP   = Sort{KFP, 64}
)

func BV(w int) Sort { return Sort{KBV, w} }

func (s Sort) String() string {
	switch s.K {
	case KBool:
		return "Bool"
	case KBV:
		return fmt.Sprintf("(_ BitVec %d)", s.W)
	case KArr:
		return "(Array (_ BitVec 64) (_ BitVec 8))"
	case KFP:
		return "(_ FloatingPoint 11 53)"
	}
	return "?"
}

// Ops -----------------------------------------------------------------

type Op uint8

const (
	OConst Op = iota
	OSym
	ONot
	OAnd
	OOr
	OIte
	OEq
	OAdd
	OSub
	OMul
	OUDiv
	OURem
	OSDiv
	OSRem
	OBAnd
	OBOr
	OBXor
	OBNot
	ONeg
	OShl
	OLShr
	OAShr
	OULt
	OULe
	OSLt
	OSLe
	OConcat
	OExtract
	OZExt
	OSExt
	OSelect
	OUF     // uninterpreted function, name in N
	ORaw    // raw smt operator, name in N (fp ops etc.)
	OFPConst // float constant, bits in V
)

var opName = map[Op]string{
	ONot: "not", OAnd: "and", OOr: "or", OIte: "ite", OEq: "=",
	OAdd: "bvadd", OSub: "bvsub", OMul: "bvmul", OUDiv: "bvudiv", OURem: "bvurem",
	OSDiv: "bvsdiv", OSRem: "bvsrem", OBAnd: "bvand", OBOr: "bvor", OBXor: "bvxor",
	OBNot: "bvnot", ONeg: "bvneg", OShl: "bvshl", OLShr: "bvlshr", OAShr: "bvashr",
	OULt: "bvult", OULe: "bvule", OSLt: "bvslt", OSLe: "bvsle", OConcat: "concat",
	OSelect: "select",
}

type Term struct {
	ID   int
	Op   Op
	S    Sort
	A    []*Term
	V    uint64
	N    string
	I, J int
}

func (t *Term) IsConst() bool { return t.Op == OConst }
func (t *Term) IsTrue() bool  { return t.Op == OConst && t.S.K == KBool && t.V == 1 }
func (t *Term) IsFalse() bool { return t.Op == OConst && t.S.K == KBool && t.V == 0 }

// signed value of a constant
func (t *Term) SVal() int64 {
	w := t.S.W
	if w >= 64 {
		return int64(t.V)
	}
	v := t.V
	if v&(1<<(uint(w)-1)) != 0 {
		v |= ^uint64(0) << uint(w)
	}
	return int64(v)
}

// TB is the term builder (hash-consing table).
type TB struct {
	tab   map[string]*Term
	next  int
	True  *Term
	False *Term
	UFs   map[string]string // name -> declaration line
	UFOrder []string
}

func NewTB() *TB {
	tb := &TB{tab: map[string]*Term{}, UFs: map[string]string{}}
	tb.True = tb.mk(&Term{Op: OConst, S: SBool, V: 1})
	tb.False = tb.mk(&Term{Op: OConst, S: SBool, V: 0})
	return tb
}

func (tb *TB) key(t *Term) string {
	var sb strings.Builder
	fmt.Fprintf(&sb, "%d|%d|%d|%x|%s|%d|%d", t.Op, t.S.K, t.S.W, t.V, t.N, t.I, t.J)
	for _, a := range t.A {
		fmt.Fprintf(&sb, "|%d", a.ID)
	}
	return sb.String()
}

func (tb *TB) mk(t *Term) *Term {
	k := tb.key(t)
	if e, ok := tb.tab[k]; ok {
		return e
	}
	t.ID = tb.next
	tb.next++
	tb.tab[k] = t
	return t
}

func mask(w int) uint64 {
	if w >= 64 {
		return ^uint64(0)
	}
	return (uint64(1) << uint(w)) - 1
}

func (tb *TB) Bool(b bool) *Term {
	if b {
		return tb.True
	}
	return tb.False
}

func (tb *TB) Const(w int, v uint64) *Term {
	return tb.mk(&Term{Op: OConst, S: BV(w), V: v & mask(w)})
}

func (tb *TB) Int(v int64) *Term { return tb.Const(64, uint64(v)) }

func (tb *TB) Sym(name string, s Sort) *Term {
	return tb.mk(&Term{Op: OSym, S: s, N: name})
}

func (tb *TB) Not(a *Term) *Term {
	if a.IsConst() {
		return tb.Bool(a.V == 0)
	}
	if a.Op == ONot {
		return a.A[0]
	}
	return tb.mk(&Term{Op: ONot, S: SBool, A: []*Term{a}})
}

func (tb *TB) And(xs ...*Term) *Term {
	var out []*Term
	seen := map[*Term]bool{}
	for _, x := range xs {
		if x.IsFalse() {
			return tb.False
		}
		if x.IsTrue() || seen[x] {
			continue
		}
		if x.Op == OAnd {
			for _, y := range x.A {
				if !seen[y] {
					seen[y] = true
					out = append(out, y)
				}
			}
			continue
		}
		seen[x] = true
		out = append(out, x)
	}
	for _, x := range out {
		if x.Op == ONot && seen[x.A[0]] {
			return tb.False
		}
	}
	if len(out) == 0 {
		return tb.True
	}
	if len(out) == 1 {
		return out[0]
	}
	return tb.mk(&Term{Op: OAnd, S: SBool, A: out})
}

func (tb *TB) Or(xs ...*Term) *Term {
	var out []*Term
	seen := map[*Term]bool{}
	for _, x := range xs {
		if x.IsTrue() {
			return tb.True
		}
		if x.IsFalse() || seen[x] {
			continue
		}
		if x.Op == OOr {
			for _, y := range x.A {
				if !seen[y] {
					seen[y] = true
					out = append(out, y)
				}
			}
			continue
		}
		seen[x] = true
		out = append(out, x)
	}
	for _, x := range out {
		if x.Op == ONot && seen[x.A[0]] {
			return tb.True
		}
	}
	if len(out) == 0 {
		return tb.False
	}
	if len(out) == 1 {
		return out[0]
	}
	return tb.mk(&Term{Op: OOr, S: SBool, A: out})
}

func (tb *TB) Implies(a, b *Term) *Term { return tb.Or(tb.Not(a), b) }

func (tb *TB) Ite(c, a, b *Term) *Term {
	if c.IsTrue() {
		return a
	}
	if c.IsFalse() {
		return b
	}
	if a == b {
		return a
	}
	if a.S.K == KBool {
		if a.IsTrue() && b.IsFalse() {
			return c
		}
		if a.IsFalse() && b.IsTrue() {
			return tb.Not(c)
		}
		if a.IsTrue() {
			return tb.Or(c, b)
		}
		if a.IsFalse() {
			return tb.And(tb.Not(c), b)
		}
		if b.IsTrue() {
			return tb.Or(tb.Not(c), a)
		}
		if b.IsFalse() {
			return tb.And(c, a)
		}
	}
	// ite(c, x, ite(c, y, z)) = ite(c, x, z)
	if b.Op == OIte && b.A[0] == c {
		return tb.Ite(c, a, b.A[2])
	}
	if a.Op == OIte && a.A[0] == c {
		return tb.Ite(c, a.A[1], b)
	}
	return tb.mk(&Term{Op: OIte, S: a.S, A: []*Term{c, a, b}})
}

func (tb *TB) Eq(a, b *Term) *Term {
	if a == b {
		return tb.True
	}
	if a.S != b.S {
		panic(fmt.Sprintf("Eq sort mismatch %v %v", a.S, b.S))
	}
	if a.IsConst() && b.IsConst() {
		return tb.Bool(a.V == b.V)
	}
	if a.S.K == KBool {
		if a.IsTrue() {
			return b
		}
		if b.IsTrue() {
			return a
		}
		if a.IsFalse() {
			return tb.Not(b)
		}
		if b.IsFalse() {
			return tb.Not(a)
		}
	}
	if a.IsConst() {
		a, b = b, a
	}
	// (ite c k1 k2) == k  with constants
	if b.IsConst() && a.Op == OIte && a.A[1].IsConst() && a.A[2].IsConst() {
		return tb.Ite(a.A[0], tb.Eq(a.A[1], b), tb.Eq(a.A[2], b))
	}
	// zext(x) == const
	if b.IsConst() && a.Op == OZExt {
		iw := a.A[0].S.W
		if b.V>>uint(iw) != 0 {
			return tb.False
		}
		return tb.Eq(a.A[0], tb.Const(iw, b.V))
	}
	// x + k1 == k2  -> x == k2-k1
	if b.IsConst() && a.Op == OAdd && a.A[1].IsConst() {
		return tb.Eq(a.A[0], tb.Const(a.S.W, b.V-a.A[1].V))
	}
	if a.ID > b.ID && !b.IsConst() {
		a, b = b, a
	}
	return tb.mk(&Term{Op: OEq, S: SBool, A: []*Term{a, b}})
}

func (tb *TB) Ne(a, b *Term) *Term { return tb.Not(tb.Eq(a, b)) }

func sext64(v uint64, w int) int64 {
	if w >= 64 {
		return int64(v)
	}
	if v&(1<<(uint(w)-1)) != 0 {
		v |= ^uint64(0) << uint(w)
	}
	return int64(v)
}

func (tb *TB) bin(op Op, a, b *Term) *Term {
	if a.S != b.S {
		panic(fmt.Sprintf("binop %s sort mismatch %v %v", opName[op], a.S, b.S))
	}
	w := a.S.W
	if a.IsConst() && b.IsConst() {
		x, y := a.V, b.V
		var r uint64
		ok := true
		switch op {
		case OAdd:
			r = x + y
		case OSub:
			r = x - y
		case OMul:
			r = x * y
		case OUDiv:
			if y == 0 {
				r = mask(w)
			} else {
				r = x / y
			}
		case OURem:
			if y == 0 {
				r = x
			} else {
				r = x % y
			}
		case OSDiv:
			sx, sy := sext64(x, w), sext64(y, w)
			if sy == 0 {
				if sx >= 0 {
					r = mask(w)
				} else {
					r = 1
				}
			} else if sy == -1 {
				r = uint64(-sx)
			} else {
				r = uint64(sx / sy)
			}
		case OSRem:
			sx, sy := sext64(x, w), sext64(y, w)
			if sy == 0 {
				r = x
			} else if sy == -1 {
				r = 0
			} else {
				r = uint64(sx % sy)
			}
		case OBAnd:
			r = x & y
		case OBOr:
			r = x | y
		case OBXor:
			r = x ^ y
		case OShl:
			if y >= uint64(w) {
				r = 0
			} else {
				r = x << y
			}
		case OLShr:
			if y >= uint64(w) {
				r = 0
			} else {
				r = x >> y
			}
		case OAShr:
			sx := sext64(x, w)
			if y >= uint64(w) {
				if sx < 0 {
					r = mask(w)
				} else {
					r = 0
				}
			} else {
				r = uint64(sx >> y)
			}
		default:
			ok = false
		}
		if ok {
			return tb.Const(w, r)
		}
	}
	switch op {
	case OAdd:
		if a.IsConst() {
			a, b = b, a
		}
		if b.IsConst() && b.V == 0 {
			return a
		}
		// (x + k1) + k2
		if b.IsConst() && a.Op == OAdd && a.A[1].IsConst() {
			return tb.bin(OAdd, a.A[0], tb.Const(w, a.A[1].V+b.V))
		}
		// (x - y) + y = x
		if a.Op == OSub && a.A[1] == b {
			return a.A[0]
		}
		if b.Op == OSub && b.A[1] == a {
			return b.A[0]
		}
	case OSub:
		if a == b {
			return tb.Const(w, 0)
		}
		if b.IsConst() {
			return tb.bin(OAdd, a, tb.Const(w, -b.V))
		}
		// (x + y) - y = x ; (x+y)-x = y
		if a.Op == OAdd {
			if a.A[1] == b {
				return a.A[0]
			}
			if a.A[0] == b {
				return a.A[1]
			}
			// (x + k) - (x' + k')...
			if a.A[1].IsConst() && b.Op == OAdd && b.A[1].IsConst() && a.A[0] == b.A[0] {
				return tb.Const(w, a.A[1].V-b.A[1].V)
			}
			// (x + k) - (y) where y == x handled; (x+k1) - (y + k2) -> (x - y) + (k1-k2)
			if a.A[1].IsConst() && b.Op == OAdd && b.A[1].IsConst() {
				return tb.bin(OAdd, tb.bin(OSub, a.A[0], b.A[0]), tb.Const(w, a.A[1].V-b.A[1].V))
			}
			if a.A[1].IsConst() {
				return tb.bin(OAdd, tb.bin(OSub, a.A[0], b), a.A[1])
			}
		}
		if b.Op == OAdd && b.A[1].IsConst() {
			if b.A[0] == a {
				return tb.Const(w, -b.A[1].V)
			}
		}
	case OMul:
		if a.IsConst() {
			a, b = b, a
		}
		if b.IsConst() {
			if b.V == 0 {
				return b
			}
			if b.V == 1 {
				return a
			}
		}
	case OBAnd:
		if a == b {
			return a
		}
		if a.IsConst() {
			a, b = b, a
		}
		if b.IsConst() {
			if b.V == 0 {
				return b
			}
			if b.V == mask(w) {
				return a
			}
		}
	case OBOr:
		if a == b {
			return a
		}
		if a.IsConst() {
			a, b = b, a
		}
		if b.IsConst() {
			if b.V == 0 {
				return a
			}
			if b.V == mask(w) {
				return b
			}
		}
	case OBXor:
		if a == b {
			return tb.Const(w, 0)
		}
		if a.IsConst() {
			a, b = b, a
		}
		if b.IsConst() && b.V == 0 {
			return a
		}
	case OShl, OLShr, OAShr:
		if b.IsConst() && b.V == 0 {
			return a
		}
		if a.IsConst() && a.V == 0 {
			return a
		}
	}
	return tb.mk(&Term{Op: op, S: a.S, A: []*Term{a, b}})
}

func (tb *TB) Add(a, b *Term) *Term  { return tb.bin(OAdd, a, b) }
func (tb *TB) Sub(a, b *Term) *Term  { return tb.bin(OSub, a, b) }
func (tb *TB) Mul(a, b *Term) *Term  { return tb.bin(OMul, a, b) }
func (tb *TB) UDiv(a, b *Term) *Term { return tb.bin(OUDiv, a, b) }
func (tb *TB) URem(a, b *Term) *Term { return tb.bin(OURem, a, b) }
func (tb *TB) SDiv(a, b *Term) *Term { return tb.bin(OSDiv, a, b) }
func (tb *TB) SRem(a, b *Term) *Term { return tb.bin(OSRem, a, b) }
func (tb *TB) BAnd(a, b *Term) *Term { return tb.bin(OBAnd, a, b) }
func (tb *TB) BOr(a, b *Term) *Term  { return tb.bin(OBOr, a, b) }
func (tb *TB) BXor(a, b *Term) *Term { return tb.bin(OBXor, a, b) }
func (tb *TB) Shl(a, b *Term) *Term  { return tb.bin(OShl, a, b) }
func (tb *TB) LShr(a, b *Term) *Term { return tb.bin(OLShr, a, b) }
func (tb *TB) AShr(a, b *Term) *Term { return tb.bin(OAShr, a, b) }

func (tb *TB) BNot(a *Term) *Term {
	if a.IsConst() {
		return tb.Const(a.S.W, ^a.V)
	}
	return tb.mk(&Term{Op: OBNot, S: a.S, A: []*Term{a}})
}
func (tb *TB) Neg(a *Term) *Term {
	if a.IsConst() {
		return tb.Const(a.S.W, -a.V)
	}
	return tb.mk(&Term{Op: ONeg, S: a.S, A: []*Term{a}})
}

func (tb *TB) cmp(op Op, a, b *Term) *Term {
	if a.S != b.S {
		panic(fmt.Sprintf("cmp sort mismatch %v %v", a.S, b.S))
	}
	w := a.S.W
	if a.IsConst() && b.IsConst() {
		switch op {
		case OULt:
			return tb.Bool(a.V < b.V)
		case OULe:
			return tb.Bool(a.V <= b.V)
		case OSLt:
			return tb.Bool(sext64(a.V, w) < sext64(b.V, w))
		case OSLe:
			return tb.Bool(sext64(a.V, w) <= sext64(b.V, w))
		}
	}
	if a == b {
		return tb.Bool(op == OULe || op == OSLe)
	}
	switch op {
	case OULt:
		if b.IsConst() && b.V == 0 {
			return tb.False
		}
		if a.IsConst() && a.V == mask(w) {
			return tb.False
		}
	case OULe:
		if a.IsConst() && a.V == 0 {
			return tb.True
		}
		if b.IsConst() && b.V == mask(w) {
			return tb.True
		}
	}
	// range facts for zero-extended operands compared with constants
	if a.Op == OZExt && b.IsConst() {
		iw := a.A[0].S.W
		lim := mask(iw)
		bv := b.V
		switch op {
		case OULt:
			if bv > lim {
				return tb.True
			}
		case OULe:
			if bv >= lim {
				return tb.True
			}
		case OSLt:
			if iw < w {
				sb := sext64(bv, w)
				if sb > int64(lim) {
					return tb.True
				}
				if sb <= 0 {
					return tb.False
				}
			}
		case OSLe:
			if iw < w {
				sb := sext64(bv, w)
				if sb >= int64(lim) {
					return tb.True
				}
				if sb < 0 {
					return tb.False
				}
			}
		}
	}
	if b.Op == OZExt && a.IsConst() {
		iw := b.A[0].S.W
		lim := mask(iw)
		av := a.V
		switch op {
		case OSLt:
			if iw < w {
				sa := sext64(av, w)
				if sa < 0 {
					return tb.True
				}
				if sa >= int64(lim) {
					return tb.False
				}
			}
		case OSLe:
			if iw < w {
				sa := sext64(av, w)
				if sa <= 0 {
					return tb.True
				}
				if sa > int64(lim) {
					return tb.False
				}
			}
		case OULt:
			if av >= lim {
				return tb.False
			}
		case OULe:
			if av > lim {
				return tb.False
			}
		}
	}
	return tb.mk(&Term{Op: op, S: SBool, A: []*Term{a, b}})
}

func (tb *TB) ULt(a, b *Term) *Term { return tb.cmp(OULt, a, b) }
func (tb *TB) ULe(a, b *Term) *Term { return tb.cmp(OULe, a, b) }
func (tb *TB) SLt(a, b *Term) *Term { return tb.cmp(OSLt, a, b) }
func (tb *TB) SLe(a, b *Term) *Term { return tb.cmp(OSLe, a, b) }

func (tb *TB) Extract(hi, lo int, a *Term) *Term {
	w := hi - lo + 1
	if lo == 0 && w == a.S.W {
		return a
	}
	if a.IsConst() {
		return tb.Const(w, a.V>>uint(lo))
	}
	switch a.Op {
	case OZExt:
		iw := a.A[0].S.W
		if hi < iw {
			return tb.Extract(hi, lo, a.A[0])
		}
		if lo >= iw {
			return tb.Const(w, 0)
		}
		if lo == 0 {
			return tb.ZExt(w, a.A[0])
		}
	case OSExt:
		iw := a.A[0].S.W
		if hi < iw {
			return tb.Extract(hi, lo, a.A[0])
		}
		if lo == 0 {
			return tb.SExt(w, a.A[0])
		}
	case OConcat:
		lw := a.A[1].S.W
		if hi < lw {
			return tb.Extract(hi, lo, a.A[1])
		}
		if lo >= lw {
			return tb.Extract(hi-lw, lo-lw, a.A[0])
		}
	case OExtract:
		return tb.Extract(hi+a.J, lo+a.J, a.A[0])
	case OLShr:
		// extract of (x >> k) with const k
		if a.A[1].IsConst() {
			k := int(a.A[1].V)
			if hi+k < a.S.W {
				return tb.Extract(hi+k, lo+k, a.A[0])
			}
		}
	case OShl:
		if a.A[1].IsConst() {
			k := int(a.A[1].V)
			if lo >= k && k < a.S.W {
				return tb.Extract(hi-k, lo-k, a.A[0])
			}
			if hi < k {
				return tb.Const(w, 0)
			}
		}
	case OBOr, OBAnd, OBXor:
		// distribute when it exposes constants (byte reassembly patterns)
		l := tb.Extract(hi, lo, a.A[0])
		r := tb.Extract(hi, lo, a.A[1])
		if l.IsConst() || r.IsConst() {
			return tb.bin(a.Op, l, r)
		}
	case OIte:
		if a.A[1].IsConst() || a.A[2].IsConst() {
			return tb.Ite(a.A[0], tb.Extract(hi, lo, a.A[1]), tb.Extract(hi, lo, a.A[2]))
		}
	}
	return tb.mk(&Term{Op: OExtract, S: BV(w), A: []*Term{a}, I: hi, J: lo})
}

func (tb *TB) ZExt(w int, a *Term) *Term {
	if w == a.S.W {
		return a
	}
	if w < a.S.W {
		return tb.Extract(w-1, 0, a)
	}
	if a.IsConst() {
		return tb.Const(w, a.V)
	}
	if a.Op == OZExt {
		return tb.ZExt(w, a.A[0])
	}
	if a.Op == OIte && a.A[1].IsConst() && a.A[2].IsConst() {
		return tb.Ite(a.A[0], tb.ZExt(w, a.A[1]), tb.ZExt(w, a.A[2]))
	}
	return tb.mk(&Term{Op: OZExt, S: BV(w), A: []*Term{a}, I: w - a.S.W})
}

func (tb *TB) SExt(w int, a *Term) *Term {
	if w == a.S.W {
		return a
	}
	if w < a.S.W {
		return tb.Extract(w-1, 0, a)
	}
	if a.IsConst() {
		return tb.Const(w, uint64(sext64(a.V, a.S.W)))
	}
	if a.Op == OZExt {
		return tb.ZExt(w, a.A[0])
	}
	if a.Op == OIte && a.A[1].IsConst() && a.A[2].IsConst() {
		return tb.Ite(a.A[0], tb.SExt(w, a.A[1]), tb.SExt(w, a.A[2]))
	}
	return tb.mk(&Term{Op: OSExt, S: BV(w), A: []*Term{a}, I: w - a.S.W})
}

func (tb *TB) Concat(a, b *Term) *Term {
	w := a.S.W + b.S.W
	if a.IsConst() && b.IsConst() && w <= 64 {
		return tb.Const(w, a.V<<uint(b.S.W)|b.V)
	}
	if a.IsConst() && a.V == 0 {
		return tb.ZExt(w, b)
	}
	return tb.mk(&Term{Op: OConcat, S: BV(w), A: []*Term{a, b}})
}

func (tb *TB) Select(arr, idx *Term) *Term {
	return tb.mk(&Term{Op: OSelect, S: BV(8), A: []*Term{arr, idx}})
}

// UF application. The declaration is derived from the argument sorts.
func (tb *TB) UF(name string, res Sort, args ...*Term) *Term {
	if _, ok := tb.UFs[name]; !ok {
		var ss []string
		for _, a := range args {
			ss = append(ss, a.S.String())
		}
		tb.UFs[name] = fmt.Sprintf("(declare-fun %s (%s) %s)", name, strings.Join(ss, " "), res)
		tb.UFOrder = append(tb.UFOrder, name)
	}
	return tb.mk(&Term{Op: OUF, S: res, N: name, A: args})
}

// Raw SMT operator application (used for floating point).
func (tb *TB) Raw(op string, res Sort, args ...*Term) *Term {
	return tb.mk(&Term{Op: ORaw, S: res, N: op, A: args})
}

func (tb *TB) FPConst(bits uint64) *Term {
	return tb.mk(&Term{Op: OFPConst, S: SFP, V: bits})
}

// body renders the defining expression of t referring to children by name.
func (t *Term) ref() string {
	switch t.Op {
	case OConst:
		if t.S.K == KBool {
			if t.V == 1 {
				return "true"
			}
			return "false"
		}
		if t.S.W%4 == 0 {
			return fmt.Sprintf("#x%0*x", t.S.W/4, t.V)
		}
		return fmt.Sprintf("(_ bv%d %d)", t.V, t.S.W)
	case OSym:
		return "|" + t.N + "|"
	case OFPConst:
		return fmt.Sprintf("((_ to_fp 11 53) #x%016x)", t.V)
	}
	return fmt.Sprintf("t%d", t.ID)
}

func (t *Term) body() string {
	var sb strings.Builder
	switch t.Op {
	case OConst, OSym, OFPConst:
		return t.ref()
	case OExtract:
		fmt.Fprintf(&sb, "((_ extract %d %d) %s)", t.I, t.J, t.A[0].ref())
		return sb.String()
	case OZExt:
		fmt.Fprintf(&sb, "((_ zero_extend %d) %s)", t.I, t.A[0].ref())
		return sb.String()
	case OSExt:
		fmt.Fprintf(&sb, "((_ sign_extend %d) %s)", t.I, t.A[0].ref())
		return sb.String()
	case OUF, ORaw:
		if len(t.A) == 0 {
			return t.N
		}
		sb.WriteString("(" + t.N)
	default:
		sb.WriteString("(" + opName[t.Op])
	}
	for _, a := range t.A {
		sb.WriteByte(' ')
		sb.WriteString(a.ref())
	}
	sb.WriteByte(')')
	return sb.String()
}

// Syms collects the free symbols of t.
func (t *Term) Syms(out map[*Term]bool, seen map[*Term]bool) {
	if seen[t] {
		return
	}
	seen[t] = true
	if t.Op == OSym {
		out[t] = true
	}
	for _, a := range t.A {
		a.Syms(out, seen)
	}
}

// Eval evaluates a term under an assignment of scalar symbols (missing = 0);
// array selects use arrVal. Returns ok=false for unsupported ops.
func (tb *TB) Eval(t *Term, env map[string]uint64, arr func(name string, idx uint64) uint64, memo map[*Term]uint64) (uint64, bool) {
	if v, ok := memo[t]; ok {
		return v, true
	}
	var r uint64
	ok := true
	arg := func(i int) uint64 {
		v, o := tb.Eval(t.A[i], env, arr, memo)
		if !o {
			ok = false
		}
		return v
	}
	w := t.S.W
	switch t.Op {
	case OConst:
		r = t.V
	case OSym:
		if t.S.K == KArr {
			return 0, false
		}
		r = env[t.N]
	case ONot:
		r = 1 - arg(0)
	case OAnd:
		r = 1
		for i := range t.A {
			if arg(i) == 0 {
				r = 0
			}
		}
	case OOr:
		r = 0
		for i := range t.A {
			if arg(i) == 1 {
				r = 1
			}
		}
	case OIte:
		if arg(0) == 1 {
			r = arg(1)
		} else {
			r = arg(2)
		}
	case OEq:
		if t.A[0].S.K == KArr {
			return 0, false
		}
		if arg(0) == arg(1) {
			r = 1
		}
	case OAdd, OSub, OMul, OUDiv, OURem, OSDiv, OSRem, OBAnd, OBOr, OBXor, OShl, OLShr, OAShr:
		c := tb.bin(t.Op, tb.Const(w, arg(0)), tb.Const(w, arg(1)))
		r = c.V
	case OBNot:
		r = ^arg(0) & mask(w)
	case ONeg:
		r = -arg(0) & mask(w)
	case OULt, OULe, OSLt, OSLe:
		aw := t.A[0].S.W
		c := tb.cmp(t.Op, tb.Const(aw, arg(0)), tb.Const(aw, arg(1)))
		r = c.V
	case OConcat:
		r = arg(0)<<uint(t.A[1].S.W) | arg(1)
	case OExtract:
		r = (arg(0) >> uint(t.J)) & mask(w)
	case OZExt:
		r = arg(0)
	case OSExt:
		r = uint64(sext64(arg(0), t.A[0].S.W)) & mask(w)
	case OSelect:
		if t.A[0].Op != OSym || arr == nil {
			return 0, false
		}
		r = arr(t.A[0].N, arg(1))
	default:
		return 0, false
	}
	if !ok {
		return 0, false
	}
	memo[t] = r
	return r, true
}

var _ = bits.Len

package gosym

import (
	"go/types"
	"strconv"
	"strings"

	"golang.org/x/tools/go/ssa"
)

// ClassAd model: an ordered attribute list. Locally built ads hold what was
// set; "peer" ads (vPeerAd) are open: every attribute that is queried gets a
// fresh (present, kind, value) triple of harness inputs named
// <ad>.<Attr>.p / .k / .s / .i / .b, from which the native side rebuilds a real
// ClassAd for replay.

const (
	adStr   = 0
	adInt   = 1
	adBool  = 2
	adOther = 3
)

type adAttr struct {
	name    string
	lname   string
	present *Term
	kind    *Term // BV8
	s       StrV
	i       *Term
	b       *Term
	nameV    StrV
	symbolic bool
}

type adModel struct {
	attrs  []*adAttr
	open   bool
	name   string
	maxStr int
}

func (in *Interp) newAd() Ptr {
	mo := in.newModel("ad", &adModel{})
	return Ptr{Obj: in.newObj(mo, nil, "classad")}
}

func (in *Interp) adOf(v Value) *adModel {
	p, ok := v.(Ptr)
	if !ok || p.Obj == nil {
		in.nilDeref()
	}
	mo, ok := p.Obj.Val.(*ModelObj)
	if !ok || mo.Kind != "ad" {
		panic("ClassAd value is not a model ad")
	}
	return mo.Data.(*adModel)
}

// foldEq: case-insensitive (ASCII) equality of two attribute names.
func (in *Interp) foldEq(a, b StrV) *Term {
	return in.strEq(in.mapBytes(a, in.lowerByte), in.mapBytes(b, in.lowerByte))
}

func (in *Interp) adFind(ad *adModel, name string, create bool) *adAttr {
	ln := strings.ToLower(name)
	isSym := strings.HasPrefix(name, "\x00sym")
	var nv StrV
	if isSym {
		nv = in.symNames[name]
	} else {
		nv = in.strConst(name)
	}
	for _, a := range ad.attrs {
		if !isSym && !a.symbolic {
			if a.lname == ln {
				return a
			}
			continue
		}
		eq := in.foldEq(a.nameV, nv)
		if eq.IsFalse() {
			continue
		}
		if in.branch(eq) {
			return a
		}
	}
	if !create {
		return nil
	}
	tb := in.tb
	a := &adAttr{name: name, lname: ln, nameV: nv, symbolic: isSym}
	if ad.open && isSym {
		panic("peer ad queried with a symbolic attribute name")
	}
	if ad.open {
		base := ad.name + "." + name
		a.present = tb.Sym(base+".p", SBool)
		in.declInput(&Input{Name: base + ".p", Kind: "bool", T: a.present})
		a.kind = tb.Sym(base+".k", BV(8))
		in.declInput(&Input{Name: base + ".k", Kind: "int", T: a.kind, W: 8})
		in.addConstraint(tb.ULe(a.kind, tb.Const(8, adOther)))
		ln := tb.Sym(base+".s.len", BV(64))
		arr := tb.Sym(base+".s", SArr)
		in.declInput(&Input{Name: base + ".s", Kind: "bytes", T: ln, Arr: arr, Max: ad.maxStr})
		in.addConstraint(tb.And(tb.SLe(tb.Int(0), ln), tb.SLe(ln, tb.Int(int64(ad.maxStr)))))
		a.s = StrV{Mem: symMem(arr), Off: tb.Int(0), Len: ln, Max: ad.maxStr}
		a.i = tb.Sym(base+".i", BV(64))
		in.declInput(&Input{Name: base + ".i", Kind: "int", T: a.i, W: 64, Signed: true})
		a.b = tb.Sym(base+".b", SBool)
		in.declInput(&Input{Name: base + ".b", Kind: "bool", T: a.b})
	} else {
		a.present = tb.False
		a.kind = tb.Const(8, adOther)
		a.s = in.strConst("")
		a.i = tb.Int(0)
		a.b = tb.False
	}
	ad.attrs = append(ad.attrs, a)
	return a
}

func (in *Interp) adSet(ad *adModel, name string, v Value, t types.Type) {
	tb := in.tb
	a := in.adFind(ad, name, true)
	a.present = tb.True
	a.s, a.i, a.b = in.strConst(""), tb.Int(0), tb.False
	switch x := v.(type) {
	case StrV:
		a.kind = tb.Const(8, adStr)
		a.s = x
	case *Term:
		if x.S.K == KBool {
			a.kind = tb.Const(8, adBool)
			a.b = x
		} else if x.S.K == KBV {
			a.kind = tb.Const(8, adInt)
			_, signed, _ := intWidth(t)
			if x.S.W < 64 {
				if signed {
					x = tb.SExt(64, x)
				} else {
					x = tb.ZExt(64, x)
				}
			}
			a.i = x
		} else {
			a.kind = tb.Const(8, adOther)
		}
	default:
		a.kind = tb.Const(8, adOther)
	}
}

func (in *Interp) nameArg(v Value) string {
	s, ok := in.concreteStr(v.(StrV))
	if !ok {
		// symbolic attribute name: hand out a token that adFind resolves
		if in.symNames == nil {
			in.symNames = map[string]StrV{}
		}
		tok := "\x00sym" + strconv.Itoa(len(in.symNames))
		in.symNames[tok] = v.(StrV)
		return tok
	}
	return s
}

// adExprString renders an attribute's value the way the library unparses
// simple literals.
func (in *Interp) adExprString(a *adAttr) StrV {
	if !a.kind.IsConst() {
		panic("Expr.String on an attribute of symbolic kind")
	}
	switch a.kind.V {
	case adStr:
		return in.strConcat(in.strConcat(in.strConst("\""), a.s), in.strConst("\""))
	case adInt:
		return in.digitsOf(a.i, true)
	case adBool:
		return tb2str(in, a.b)
	}
	return in.strConst("undefined")
}

func tb2str(in *Interp, b *Term) StrV {
	if b.IsConst() {
		if b.V == 1 {
			return in.strConst("true")
		}
		return in.strConst("false")
	}
	if in.branch(b) {
		return in.strConst("true")
	}
	return in.strConst("false")
}

func registerClassAdNatives(in *Interp) {
	const P = "github.com/PelicanPlatform/classad/classad."
	const M = "(*github.com/PelicanPlatform/classad/classad.ClassAd)."
	n := in.natives
	n[P+"New"] = func(in *Interp, fn *ssa.Function, args []Value) Value { return in.newAd() }
	n[M+"Set"] = func(in *Interp, fn *ssa.Function, args []Value) Value {
		ad := in.adOf(args[0])
		iv := args[2].(IfaceV)
		if iv.T == nil {
			in.adSet(ad, in.nameArg(args[1]), nil, nil)
		} else {
			in.adSet(ad, in.nameArg(args[1]), iv.V, iv.T)
		}
		return IfaceV{}
	}
	n[M+"InsertAttr"] = func(in *Interp, fn *ssa.Function, args []Value) Value {
		in.adSet(in.adOf(args[0]), in.nameArg(args[1]), args[2], types.Typ[types.Int64])
		return nil
	}
	n[M+"InsertAttrString"] = func(in *Interp, fn *ssa.Function, args []Value) Value {
		in.adSet(in.adOf(args[0]), in.nameArg(args[1]), args[2], types.Typ[types.String])
		return nil
	}
	n[M+"InsertAttrBool"] = func(in *Interp, fn *ssa.Function, args []Value) Value {
		in.adSet(in.adOf(args[0]), in.nameArg(args[1]), args[2], types.Typ[types.Bool])
		return nil
	}
	n[M+"EvaluateAttrString"] = func(in *Interp, fn *ssa.Function, args []Value) Value {
		tb := in.tb
		ad := in.adOf(args[0])
		a := in.adFind(ad, in.nameArg(args[1]), ad.open)
		if a == nil {
			return TupleV{in.strConst(""), tb.False}
		}
		ok := tb.And(a.present, tb.Eq(a.kind, tb.Const(8, adStr)))
		if ok.IsFalse() {
			return TupleV{in.strConst(""), tb.False}
		}
		s := a.s
		if !ok.IsTrue() {
			s = StrV{Mem: s.Mem, Off: s.Off, Len: tb.Ite(ok, s.Len, tb.Int(0)), Max: s.Max}
		}
		return TupleV{s, ok}
	}
	n[M+"EvaluateAttrInt"] = func(in *Interp, fn *ssa.Function, args []Value) Value {
		tb := in.tb
		ad := in.adOf(args[0])
		a := in.adFind(ad, in.nameArg(args[1]), ad.open)
		if a == nil {
			return TupleV{tb.Int(0), tb.False}
		}
		ok := tb.And(a.present, tb.Eq(a.kind, tb.Const(8, adInt)))
		return TupleV{tb.Ite(ok, a.i, tb.Int(0)), ok}
	}
	n[M+"EvaluateAttrBool"] = func(in *Interp, fn *ssa.Function, args []Value) Value {
		tb := in.tb
		ad := in.adOf(args[0])
		a := in.adFind(ad, in.nameArg(args[1]), ad.open)
		if a == nil {
			return TupleV{tb.False, tb.False}
		}
		ok := tb.And(a.present, tb.Eq(a.kind, tb.Const(8, adBool)))
		return TupleV{tb.And(ok, a.b), ok}
	}
	n[M+"Lookup"] = func(in *Interp, fn *ssa.Function, args []Value) Value {
		ad := in.adOf(args[0])
		a := in.adFind(ad, in.nameArg(args[1]), ad.open)
		if a == nil {
			return TupleV{Ptr{}, in.tb.False}
		}
		o := in.newObj(in.newModel("adexpr", a), nil, "expr")
		return TupleV{Ptr{Obj: o}, a.present}
	}
	n["(*github.com/PelicanPlatform/classad/classad.Expr).String"] = func(in *Interp, fn *ssa.Function, args []Value) Value {
		p := args[0].(Ptr)
		if p.Obj == nil {
			in.nilDeref()
		}
		return in.adExprString(p.Obj.Val.(*ModelObj).Data.(*adAttr))
	}
	n[M+"Delete"] = func(in *Interp, fn *ssa.Function, args []Value) Value {
		ad := in.adOf(args[0])
		a := in.adFind(ad, in.nameArg(args[1]), ad.open)
		if a == nil {
			return in.tb.False
		}
		was := a.present
		a.present = in.tb.False
		return was
	}
	n[M+"Size"] = func(in *Interp, fn *ssa.Function, args []Value) Value {
		tb := in.tb
		ad := in.adOf(args[0])
		r := tb.Int(0)
		for _, a := range ad.attrs {
			r = tb.Add(r, tb.Ite(a.present, tb.Int(1), tb.Int(0)))
		}
		return r
	}
	n[M+"String"] = func(in *Interp, fn *ssa.Function, args []Value) Value { return in.strConst("[classad]") }
	n[M+"GetAttributes"] = func(in *Interp, fn *ssa.Function, args []Value) Value {
		ad := in.adOf(args[0])
		var names []Value
		for _, a := range ad.attrs {
			if a.present.IsTrue() {
				names = append(names, a.nameV)
			} else if !a.present.IsFalse() {
				if in.branch(a.present) {
					names = append(names, a.nameV)
				}
			}
		}
		o := in.newObj(&ArrayV{E: names}, nil, "attrs")
		nn := in.tb.Int(int64(len(names)))
		return SliceV{Base: Ptr{Obj: o}, Off: in.tb.Int(0), Len: nn, Cap: nn, Max: len(names)}
	}
	in.intrinsicsExtra["vAdSetStrIf"] = func(in *Interp, args []Value) Value {
		ad := in.adOf(args[0])
		a := in.adFind(ad, in.nameArg(args[1]), true)
		if !ad.open {
			a.s, a.i, a.b = in.strConst(""), in.tb.Int(0), in.tb.False
		}
		a.present = args[2].(*Term)
		a.kind = in.tb.Const(8, adStr)
		a.s = args[3].(StrV)
		return nil
	}
	in.intrinsicsExtra["vPeerAd"] = func(in *Interp, args []Value) Value {
		name := in.argStr(args[0])
		mx := int(args[1].(*Term).V)
		mo := in.newModel("ad", &adModel{open: true, name: name, maxStr: mx})
		return Ptr{Obj: in.newObj(mo, nil, "peerad:"+name)}
	}
}

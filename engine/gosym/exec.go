package gosym

import (
	"fmt"
	"go/constant"
	"go/token"
	"go/types"
	"math"
	"strings"

	"golang.org/x/tools/go/ssa"
)

type frame struct {
	fn     *ssa.Function
	locals map[ssa.Value]Value
	defers []func()
	hits   map[*ssa.BasicBlock]int
	result Value
}

var bufferWriters = map[string]bool{"(*bytes.Buffer).Write": true, "(*bytes.Buffer).WriteString": true, "(*bytes.Buffer).WriteByte": true, "(*bytes.Buffer).Grow": true}

func (in *Interp) call(fn *ssa.Function, args []Value) Value {
	if fn == nil {
		panic("call of nil function")
	}
	name := fn.String()
	if fn.Synthetic == "package initializer" && in.initDepth > 0 && fn != in.initTop {
		// dependencies are initialised lazily, on first access to one of their globals
		return nil
	}
	if strings.HasPrefix(fn.Name(), "v") && fn.Pkg != nil && isHarnessIntrinsic(fn.Name()) {
		return in.intrinsic(fn, args)
	}
	if nf, ok := in.natives[name]; ok && !(in.realBuffer && bufferWriters[name]) {
		in.stats.Models[name]++
		return nf(in, fn, args)
	}
	if fn.Origin() != nil {
		if nf, ok := in.natives[fn.Origin().String()]; ok {
			in.stats.Models[fn.Origin().String()]++
			return nf(in, fn, args)
		}
	}
	if fn.Pkg != nil {
		switch fn.Pkg.Pkg.Path() {
		case "log/slog", "log":
			in.stats.Models["log/slog.* (no-op)"]++
			return in.zeroResults(fn)
		}
	}
	if fn.Blocks == nil {
		return in.external(fn, args)
	}
	if in.depth >= in.cfg.MaxDepth {
		in.inconclusive = append(in.inconclusive, "call depth bound reached in "+name)
		in.endPath("unwind")
	}
	in.depth++
	in.curFn = append(in.curFn, fn)
	in.stats.Funcs[name]++
	fr := &frame{fn: fn, locals: make(map[ssa.Value]Value, 16), hits: map[*ssa.BasicBlock]int{}}
	for i, p := range fn.Params {
		fr.locals[p] = args[i]
	}
	res := in.runFrame(fr)
	in.curFn = in.curFn[:len(in.curFn)-1]
	in.depth--
	return res
}

func (in *Interp) callClosure(f *FuncV, args []Value) Value {
	if f == nil {
		in.reportViolation("panic", "call of nil func", in.site(), nil)
		in.endPath("panic:nil func")
	}
	if f.NatF != nil {
		return f.NatF(in, args)
	}
	if len(f.Bind) == 0 {
		return in.call(f.Fn, args)
	}
	// closures: bind free variables
	fn := f.Fn
	if nf, ok := in.natives[fn.String()]; ok {
		return nf(in, fn, append(append([]Value{}, f.Bind...), args...))
	}
	if in.depth >= in.cfg.MaxDepth {
		in.endPath("unwind")
	}
	in.depth++
	in.curFn = append(in.curFn, fn)
	in.stats.Funcs[fn.String()]++
	fr := &frame{fn: fn, locals: make(map[ssa.Value]Value, 16), hits: map[*ssa.BasicBlock]int{}}
	for i, p := range fn.Params {
		fr.locals[p] = args[i]
	}
	for i, fv := range fn.FreeVars {
		fr.locals[fv] = f.Bind[i]
	}
	res := in.runFrame(fr)
	in.curFn = in.curFn[:len(in.curFn)-1]
	in.depth--
	return res
}

func (in *Interp) unwindLimit(fn *ssa.Function) int {
	if in.cfg.UnwindFn != nil {
		if n, ok := in.cfg.UnwindFn[fn.String()]; ok {
			return n
		}
		if n, ok := in.cfg.UnwindFn[fn.Name()]; ok {
			return n
		}
	}
	if fn.Pkg != nil {
		p := fn.Pkg.Pkg.Path()
		if !strings.HasPrefix(p, "github.com/bbockelm/cedar") {
			return 4096 // library loops over concrete data
		}
	}
	root := fn
	for root.Parent() != nil {
		root = root.Parent()
	}
	if strings.HasPrefix(root.Name(), "vh") || strings.HasPrefix(root.Name(), "VH_") {
		return 4096 // harness helpers: loops over concrete harness data
	}
	return in.cfg.Unwind
}

func (in *Interp) runFrame(fr *frame) Value {
	fn := fr.fn
	b := fn.Blocks[0]
	var prev *ssa.BasicBlock
	limit := in.unwindLimit(fn)
	for {
		// phis
		nphi := 0
		for _, ins := range b.Instrs {
			phi, ok := ins.(*ssa.Phi)
			if !ok {
				break
			}
			nphi++
			_ = phi
		}
		if nphi > 0 {
			idx := -1
			for i, p := range b.Preds {
				if p == prev {
					idx = i
					break
				}
			}
			vals := make([]Value, nphi)
			for i := 0; i < nphi; i++ {
				vals[i] = in.get(fr, b.Instrs[i].(*ssa.Phi).Edges[idx])
			}
			for i := 0; i < nphi; i++ {
				fr.locals[b.Instrs[i].(*ssa.Phi)] = vals[i]
			}
		}
		var next *ssa.BasicBlock
		for _, ins := range b.Instrs[nphi:] {
			in.stats.Instrs++
			switch x := ins.(type) {
			case *ssa.If:
				c := in.get(fr, x.Cond).(*Term)
				if in.branch(c) {
					next = b.Succs[0]
				} else {
					next = b.Succs[1]
				}
			case *ssa.Jump:
				next = b.Succs[0]
			case *ssa.Return:
				var res Value
				switch len(x.Results) {
				case 0:
				case 1:
					res = in.get(fr, x.Results[0])
				default:
					tv := make(TupleV, len(x.Results))
					for i, r := range x.Results {
						tv[i] = in.get(fr, r)
					}
					res = tv
				}
				fr.result = res
				return res
			case *ssa.RunDefers:
				in.runDefers(fr)
			case *ssa.Panic:
				v := in.get(fr, x.X)
				in.explicitPanic(fr, v)
			default:
				in.exec(fr, ins)
			}
		}
		if next == nil {
			panic("block without terminator in " + fn.String())
		}
		// loop bound: count entries via back edges (target index <= source index)
		if next.Index <= b.Index {
			fr.hits[next]++
			if fr.hits[next] > limit {
				in.inconclusive = append(in.inconclusive, fmt.Sprintf("unwinding assertion: loop in %s exceeded %d iterations", fn.String(), limit))
				in.endPath("unwind")
			}
		}
		prev = b
		b = next
	}
}

func (in *Interp) runDefers(fr *frame) {
	for len(fr.defers) > 0 {
		d := fr.defers[len(fr.defers)-1]
		fr.defers = fr.defers[:len(fr.defers)-1]
		d()
	}
}

func (in *Interp) explicitPanic(fr *frame, v Value) {
	msg := "explicit panic"
	if iv, ok := v.(IfaceV); ok {
		if s, ok := iv.V.(StrV); ok {
			if b, ok := in.concreteStr(s); ok {
				msg = "panic: " + b
			}
		}
	}
	in.reportViolation("panic", msg, in.site(), nil)
	in.endPath("panic:" + msg)
}

func (in *Interp) get(fr *frame, v ssa.Value) Value {
	switch x := v.(type) {
	case *ssa.Const:
		return in.constVal(x)
	case *ssa.Global:
		return Ptr{Obj: in.global(x)}
	case *ssa.Function:
		return &FuncV{Fn: x}
	case *ssa.Builtin:
		return &FuncV{Nat: x.Name()}
	}
	r, ok := fr.locals[v]
	if !ok {
		panic(fmt.Sprintf("unbound ssa value %s (%T) in %s", v.Name(), v, fr.fn))
	}
	return r
}

func (in *Interp) constVal(c *ssa.Const) Value {
	tb := in.tb
	t := c.Type()
	if c.Value == nil {
		return in.zero(t)
	}
	switch u := t.Underlying().(type) {
	case *types.Basic:
		switch {
		case u.Info()&types.IsBoolean != 0:
			return tb.Bool(constant.BoolVal(c.Value))
		case u.Info()&types.IsString != 0:
			s := constant.StringVal(c.Value)
			return in.strConst(s)
		case u.Info()&types.IsInteger != 0:
			w, signed, _ := intWidth(t)
			if signed {
				v, _ := constant.Int64Val(constant.ToInt(c.Value))
				return tb.Const(w, uint64(v))
			}
			v, _ := constant.Uint64Val(constant.ToInt(c.Value))
			return tb.Const(w, v)
		case u.Info()&types.IsFloat != 0:
			f, _ := constant.Float64Val(c.Value)
			if u.Kind() == types.Float32 {
				f = float64(float32(f))
			}
			return tb.FPConst(math.Float64bits(f))
		}
	case *types.Interface:
		// typed constant converted to interface cannot occur (MakeInterface is explicit)
	}
	panic(fmt.Sprintf("constVal: unsupported constant %v : %v", c.Value, t))
}

func (in *Interp) strConst(s string) StrV {
	return StrV{Mem: constMem([]byte(s)), Off: in.tb.Int(0), Len: in.tb.Int(int64(len(s))), Max: len(s)}
}

// global returns the object backing a package-level variable, initialising its
// package on first use.
func (in *Interp) global(g *ssa.Global) *Obj {
	if o, ok := in.globals[g]; ok {
		return o
	}
	elem := g.Type().(*types.Pointer).Elem()
	o := in.newObj(in.zero(elem), elem, "global:"+g.String())
	in.globals[g] = o
	if g.Pkg != nil && !in.pkgInited[g.Pkg] && !strings.HasPrefix(g.Name(), "init$") {
		in.initPackage(g.Pkg)
	}
	return o
}

func (in *Interp) initPackage(p *ssa.Package) {
	if in.pkgInited[p] {
		return
	}
	in.pkgInited[p] = true
	initFn := p.Func("init")
	if initFn == nil || initFn.Blocks == nil {
		return
	}
	if skipInit[p.Pkg.Path()] {
		return
	}
	saveDepth := in.depth
	saveTop := in.initTop
	in.initTop = initFn
	in.initDepth++
	in.call(initFn, nil)
	in.initDepth--
	in.initTop = saveTop
	in.depth = saveDepth
}

var skipInit = map[string]bool{
	"runtime": true, "os": true, "syscall": true, "net": true, "time": true, "reflect": true,
	"internal/poll": true, "internal/cpu": true, "unicode": true, "crypto/internal/fips140": true,
	"internal/godebug": true, "log/slog": true, "log": true, "crypto/rand": true, "math/rand": true,
	"internal/reflectlite": true, "sync": true, "fmt": true, "encoding/json": true, "net/http": true,
	"crypto/tls": true, "crypto/x509": true, "regexp/syntax": true, "math/big": true, "strconv": true,
	"internal/bisect": true, "internal/testlog": true, "unicode/utf8": true, "math": true, "math/bits": true,
	"os/user": true, "path/filepath": true, "crypto": true, "hash/crc32": true,
}

func (in *Interp) load(p Ptr) Value {
	if p.Obj == nil {
		in.nilDeref()
	}
	if in.track != nil {
		in.noteAccess(p, false)
	}
	v := getPath(p.Obj.Val, p.Path)
	if p.BIdx != nil {
		return in.memRead(v.(*ByteMem), p.BIdx)
	}
	return v
}

func (in *Interp) store(p Ptr, v Value) {
	if p.Obj == nil {
		in.nilDeref()
	}
	if in.track != nil {
		in.noteAccess(p, true)
	}
	if p.BIdx != nil {
		m := getPath(p.Obj.Val, p.Path).(*ByteMem)
		p.Obj.Val = setPath(p.Obj.Val, p.Path, in.memStore(m, p.BIdx, v.(*Term)))
		return
	}
	p.Obj.Val = setPath(p.Obj.Val, p.Path, v)
}

func (in *Interp) nilDeref() {
	in.reportViolation("panic", "nil pointer dereference", in.site(), nil)
	in.endPath("panic:nil deref")
}

func (in *Interp) exec(fr *frame, ins ssa.Instruction) {
	tb := in.tb
	switch x := ins.(type) {
	case *ssa.DebugRef:
	case *ssa.Alloc:
		elem := x.Type().(*types.Pointer).Elem()
		fr.locals[x] = Ptr{Obj: in.newObj(in.zero(elem), elem, "alloc:"+x.Comment)}
	case *ssa.BinOp:
		fr.locals[x] = in.binop(x.Op, in.get(fr, x.X), in.get(fr, x.Y), x.X.Type(), x.Y.Type())
	case *ssa.UnOp:
		fr.locals[x] = in.unop(fr, x)
	case *ssa.Call:
		fr.locals[x] = in.doCall(fr, &x.Call)
	case *ssa.ChangeInterface:
		fr.locals[x] = in.get(fr, x.X)
	case *ssa.ChangeType:
		fr.locals[x] = in.get(fr, x.X)
	case *ssa.Convert:
		fr.locals[x] = in.convert(in.get(fr, x.X), x.X.Type(), x.Type())
	case *ssa.Extract:
		fr.locals[x] = in.get(fr, x.Tuple).(TupleV)[x.Index]
	case *ssa.Field:
		fr.locals[x] = in.get(fr, x.X).(*StructV).F[x.Field]
	case *ssa.FieldAddr:
		p := in.get(fr, x.X).(Ptr)
		if p.Obj == nil {
			in.nilDeref()
		}
		fr.locals[x] = p.sub(x.Field)
	case *ssa.Index:
		fr.locals[x] = in.index(in.get(fr, x.X), in.get(fr, x.Index).(*Term), x.X.Type())
	case *ssa.IndexAddr:
		fr.locals[x] = in.indexAddr(in.get(fr, x.X), in.get(fr, x.Index).(*Term), x.X.Type())
	case *ssa.Lookup:
		fr.locals[x] = in.lookup(fr, x)
	case *ssa.MakeClosure:
		bind := make([]Value, len(x.Bindings))
		for i, b := range x.Bindings {
			bind[i] = in.get(fr, b)
		}
		fr.locals[x] = &FuncV{Fn: x.Fn.(*ssa.Function), Bind: bind}
	case *ssa.MakeInterface:
		fr.locals[x] = IfaceV{T: x.X.Type(), V: in.get(fr, x.X)}
	case *ssa.MakeMap:
		fr.locals[x] = MapV{Obj: in.newObj(&MapData{}, x.Type(), "map")}
	case *ssa.MakeSlice:
		fr.locals[x] = in.makeSlice(x.Type(), in.get(fr, x.Len).(*Term), in.get(fr, x.Cap).(*Term))
	case *ssa.MakeChan:
		fr.locals[x] = ChanV{Obj: in.newObj(&chanData{}, x.Type(), "chan")}
	case *ssa.MapUpdate:
		in.mapUpdate(in.get(fr, x.Map).(MapV), in.get(fr, x.Key), in.get(fr, x.Value))
	case *ssa.Range:
		fr.locals[x] = in.rangeIter(in.get(fr, x.X), x.X.Type())
	case *ssa.Next:
		fr.locals[x] = in.next(in.get(fr, x.Iter).(*iterV), x)
	case *ssa.Slice:
		fr.locals[x] = in.sliceOp(fr, x)
	case *ssa.Store:
		in.store(in.get(fr, x.Addr).(Ptr), in.get(fr, x.Val))
	case *ssa.TypeAssert:
		fr.locals[x] = in.typeAssert(in.get(fr, x.X).(IfaceV), x)
	case *ssa.Defer:
		call := x.Call
		var fnv Value
		var args []Value
		fnv, args = in.prepareCall(fr, &call)
		fr.defers = append(fr.defers, func() { in.invokePrepared(fnv, args, &call) })
	case *ssa.Go:
		in.goStmt(fr, x)
	case *ssa.Send:
		in.chanSend(in.get(fr, x.Chan).(ChanV), in.get(fr, x.X))
	case *ssa.Select:
		fr.locals[x] = in.selectStmt(fr, x)
	case *ssa.SliceToArrayPointer:
		s := in.get(fr, x.X).(SliceV)
		fr.locals[x] = in.sliceToArrayPtr(s, x.Type())
	case *ssa.MultiConvert:
		fr.locals[x] = in.convert(in.get(fr, x.X), x.X.Type(), x.Type())
	default:
		panic(fmt.Sprintf("unsupported instruction %T: %v", ins, ins))
	}
	_ = tb
}

func (in *Interp) unop(fr *frame, x *ssa.UnOp) Value {
	tb := in.tb
	v := in.get(fr, x.X)
	switch x.Op {
	case token.MUL:
		return in.load(v.(Ptr))
	case token.NOT:
		return tb.Not(v.(*Term))
	case token.SUB:
		t := v.(*Term)
		if t.S.K == KFP {
			return tb.Raw("fp.neg", SFP, t)
		}
		return tb.Neg(t)
	case token.XOR:
		return tb.BNot(v.(*Term))
	case token.ARROW:
		return in.chanRecv(v.(ChanV), x.CommaOk, x.Type())
	}
	panic("unop " + x.Op.String())
}

func (in *Interp) makeSlice(t types.Type, ln, cp *Term) Value {
	tb := in.tb
	st := t.Underlying().(*types.Slice)
	ln = in.toInt(ln)
	cp = in.toInt(cp)
	in.mustHold(tb.And(tb.SLe(tb.Int(0), ln), tb.SLe(ln, cp)), "panic", "makeslice: len out of range")
	in.noteAlloc(cp)
	if isByteType(st.Elem()) {
		o := in.newObj(zeroMem, types.NewArray(st.Elem(), 0), "make")
		mx := -1
		if cp.IsConst() {
			mx = int(cp.V)
		}
		if ln.IsConst() {
			mx = int(ln.V)
		}
		return SliceV{Base: Ptr{Obj: o}, Off: tb.Int(0), Len: ln, Cap: cp, Byte: true, Max: mx}
	}
	n := in.concretize(cp, "make cap")
	e := make([]Value, n)
	for i := range e {
		e[i] = in.zero(st.Elem())
	}
	o := in.newObj(&ArrayV{E: e}, types.NewArray(st.Elem(), int64(n)), "make")
	return SliceV{Base: Ptr{Obj: o}, Off: tb.Int(0), Len: ln, Cap: cp, Max: n}
}

func (in *Interp) toInt(t *Term) *Term {
	if t.S.W == 64 {
		return t
	}
	return in.tb.SExt(64, t)
}

// concretize forks over the possible values of a small symbolic integer.
func (in *Interp) concretize(t *Term, what string) int {
	if t.IsConst() {
		return int(t.SVal())
	}
	tb := in.tb
	const lim = 64
	ch := in.choose(lim+1, func(i int) *Term {
		if i == lim {
			return tb.Not(tb.And(tb.SLe(tb.Int(0), t), tb.SLt(t, tb.Int(lim))))
		}
		return tb.Eq(t, tb.Const(t.S.W, uint64(i)))
	})
	if ch == lim {
		in.inconclusive = append(in.inconclusive, "cannot concretize "+what+" (value outside 0..63 feasible)")
		in.endPath("unwind")
	}
	return ch
}

func (in *Interp) index(v Value, i *Term, t types.Type) Value {
	tb := in.tb
	i = in.toInt(i)
	switch x := v.(type) {
	case *ArrayV:
		in.mustHold(tb.And(tb.SLe(tb.Int(0), i), tb.SLt(i, tb.Int(int64(len(x.E))))), "panic", "index out of range")
		return x.E[in.concretize(i, "array index")]
	case *ByteMem:
		n := t.Underlying().(*types.Array).Len()
		in.mustHold(tb.And(tb.SLe(tb.Int(0), i), tb.SLt(i, tb.Int(n))), "panic", "index out of range")
		return in.memRead(x, i)
	case StrV:
		in.mustHold(tb.And(tb.SLe(tb.Int(0), i), tb.SLt(i, x.Len)), "panic", "index out of range")
		return in.memRead(x.Mem, tb.Add(x.Off, i))
	}
	panic(fmt.Sprintf("index on %T", v))
}

func (in *Interp) indexAddr(v Value, i *Term, t types.Type) Value {
	tb := in.tb
	i = in.toInt(i)
	switch x := v.(type) {
	case SliceV:
		in.mustHold(tb.And(tb.SLe(tb.Int(0), i), tb.SLt(i, x.Len)), "panic", "index out of range")
		if x.Byte {
			return Ptr{Obj: x.Base.Obj, Path: x.Base.Path, BIdx: tb.Add(x.Off, i)}
		}
		k := in.concretize(tb.Add(x.Off, i), "slice index")
		return x.Base.sub(k)
	case Ptr:
		if x.Obj == nil {
			in.nilDeref()
		}
		at := t.Underlying().(*types.Pointer).Elem().Underlying().(*types.Array)
		in.mustHold(tb.And(tb.SLe(tb.Int(0), i), tb.SLt(i, tb.Int(at.Len()))), "panic", "index out of range")
		if isByteType(at.Elem()) {
			return Ptr{Obj: x.Obj, Path: x.Path, BIdx: i}
		}
		return x.sub(in.concretize(i, "array index"))
	}
	panic(fmt.Sprintf("indexAddr on %T", v))
}

func (in *Interp) sliceOp(fr *frame, x *ssa.Slice) Value {
	tb := in.tb
	v := in.get(fr, x.X)
	var lo, hi, mx *Term
	if x.Low != nil {
		lo = in.toInt(in.get(fr, x.Low).(*Term))
	} else {
		lo = tb.Int(0)
	}
	if x.High != nil {
		hi = in.toInt(in.get(fr, x.High).(*Term))
	}
	if x.Max != nil {
		mx = in.toInt(in.get(fr, x.Max).(*Term))
	}
	switch s := v.(type) {
	case StrV:
		if hi == nil {
			hi = s.Len
		}
		in.mustHold(tb.And(tb.SLe(tb.Int(0), lo), tb.SLe(lo, hi), tb.SLe(hi, s.Len)), "panic", "slice bounds out of range")
		nl := tb.Sub(hi, lo)
		nm := s.Max
		if nl.IsConst() {
			nm = int(nl.V)
		} else if lo.IsConst() && nm >= 0 {
			nm -= int(lo.V)
			if nm < 0 {
				nm = 0
			}
		}
		if hi.IsConst() && lo.IsConst() {
			nm = int(hi.V - lo.V)
		} else if hi.IsConst() && (nm < 0 || int(hi.V) < nm) {
			nm = int(hi.V)
		}
		return StrV{Mem: s.Mem, Off: tb.Add(s.Off, lo), Len: nl, Max: nm}
	case SliceV:
		if hi == nil {
			hi = s.Len
		}
		cp := s.Cap
		if mx != nil {
			in.mustHold(tb.And(tb.SLe(hi, mx), tb.SLe(mx, s.Cap)), "panic", "slice bounds out of range")
			cp = mx
		}
		in.mustHold(tb.And(tb.SLe(tb.Int(0), lo), tb.SLe(lo, hi), tb.SLe(hi, s.Cap)), "panic", "slice bounds out of range")
		nl := tb.Sub(hi, lo)
		nm := -1
		if nl.IsConst() {
			nm = int(nl.V)
		} else if hi.IsConst() {
			nm = int(hi.V)
		} else if x.High == nil && s.Max >= 0 {
			nm = s.Max
			if lo.IsConst() {
				nm -= int(lo.V)
				if nm < 0 {
					nm = 0
				}
			}
		} else if s.Cap.IsConst() {
			nm = int(s.Cap.V)
		}
		r := SliceV{Base: s.Base, Off: tb.Add(s.Off, lo), Len: nl, Cap: tb.Sub(cp, lo), Byte: s.Byte, Max: nm}
		if s.Nil {
			r.Nil = true
		}
		return r
	case Ptr: // *array
		if s.Obj == nil {
			in.nilDeref()
		}
		at := x.X.Type().Underlying().(*types.Pointer).Elem().Underlying().(*types.Array)
		n := tb.Int(at.Len())
		if hi == nil {
			hi = n
		}
		cp := n
		if mx != nil {
			cp = mx
		}
		in.mustHold(tb.And(tb.SLe(tb.Int(0), lo), tb.SLe(lo, hi), tb.SLe(hi, cp), tb.SLe(cp, n)), "panic", "slice bounds out of range")
		nl := tb.Sub(hi, lo)
		nm := int(at.Len())
		if nl.IsConst() {
			nm = int(nl.V)
		}
		return SliceV{Base: Ptr{Obj: s.Obj, Path: s.Path}, Off: lo, Len: nl, Cap: tb.Sub(cp, lo), Byte: isByteType(at.Elem()), Max: nm}
	}
	panic(fmt.Sprintf("slice of %T", v))
}

func (in *Interp) sliceToArrayPtr(s SliceV, t types.Type) Value {
	panic("SliceToArrayPointer unsupported")
}

func (in *Interp) typeAssert(iv IfaceV, x *ssa.TypeAssert) Value {
	tb := in.tb
	ok := false
	var res Value
	at := x.AssertedType
	if iv.T != nil {
		if _, isIface := at.Underlying().(*types.Interface); isIface && !isTypeParam(at) {
			ok = in.implements(iv, at.Underlying().(*types.Interface))
			res = iv
		} else {
			ok = types.Identical(iv.T, at)
			res = iv.V
		}
	}
	if !ok {
		if _, isIface := at.Underlying().(*types.Interface); isIface {
			res = IfaceV{}
		} else {
			res = in.zero(at)
		}
	}
	if x.CommaOk {
		return TupleV{res, tb.Bool(ok)}
	}
	if !ok {
		in.reportViolation("panic", "interface conversion failed", in.site(), nil)
		in.endPath("panic:type assertion")
	}
	return res
}

func isTypeParam(t types.Type) bool {
	_, ok := t.(*types.TypeParam)
	return ok
}

func (in *Interp) implements(iv IfaceV, it *types.Interface) bool {
	if mo, ok := iv.V.(*ModelObj); ok {
		return modelImplements(mo, it)
	}
	return types.Implements(iv.T, it)
}

package gosym

import (
	"encoding/json"
	"fmt"
	"os"
	"strconv"
	"strings"
)

type KnownFinding struct {
	ID        string `json:"id"`
	Property  string `json:"property"`
	Status    string `json:"status"` // known | fixed
	Harness   string `json:"harness"`
	Label     string `json:"label"`
	Kind      string `json:"kind,omitempty"`
	Site      string `json:"site,omitempty"`
	Predicate string `json:"predicate,omitempty"`
	What      string `json:"what"`
	Commit    string `json:"commit,omitempty"`
}

func LoadKnown(path string) ([]KnownFinding, error) {
	b, err := os.ReadFile(path)
	if err != nil {
		if os.IsNotExist(err) {
			return nil, nil
		}
		return nil, err
	}
	var ks []KnownFinding
	if err := json.Unmarshal(b, &ks); err != nil {
		return nil, err
	}
	return ks, nil
}

type predAtom struct {
	name string
	op   string
	val  int64
}

func parsePredicate(p string) ([]predAtom, error) {
	p = strings.TrimSpace(p)
	if p == "" {
		return nil, nil
	}
	var out []predAtom
	for _, part := range strings.Split(p, "&&") {
		f := strings.Fields(part)
		if len(f) != 3 {
			return nil, fmt.Errorf("bad predicate atom %q", part)
		}
		v, err := strconv.ParseInt(f[2], 0, 64)
		if err != nil {
			return nil, err
		}
		out = append(out, predAtom{f[0], f[1], v})
	}
	return out, nil
}

func cmpInt(a int64, op string, b int64) bool {
	switch op {
	case "==":
		return a == b
	case "!=":
		return a != b
	case "<":
		return a < b
	case "<=":
		return a <= b
	case ">":
		return a > b
	case ">=":
		return a >= b
	}
	return false
}

func modelInt(model map[string]any, name string) (int64, bool) {
	if tg, ok := model["_tags"].(map[string]int64); ok {
		if v, ok := tg[name]; ok {
			return v, true
		}
	}
	switch v := model[name].(type) {
	case int64:
		return v, true
	case uint64:
		return int64(v), true
	case bool:
		if v {
			return 1, true
		}
		return 0, true
	}
	return 0, false
}

func (in *Interp) matchKnown(kind, what, site string, model map[string]any) *KnownFinding {
	for i := range in.cfg.Known {
		k := &in.cfg.Known[i]
		if k.Status != "known" {
			continue
		}
		if k.Harness != "" && !labelMatch(k.Harness, in.hname) {
			continue
		}
		if k.Kind != "" && k.Kind != kind {
			continue
		}
		if !labelMatch(k.Label, what) {
			continue
		}
		if k.Site != "" && !strings.Contains(site, k.Site) {
			continue
		}
		atoms, err := parsePredicate(k.Predicate)
		if err != nil {
			continue
		}
		ok := true
		for _, a := range atoms {
			v, has := modelInt(model, a.name)
			if !has || !cmpInt(v, a.op, a.val) {
				ok = false
				break
			}
		}
		if ok {
			return k
		}
	}
	return nil
}

// knownPredicateTerm builds the predicate of a known finding over the current
// path's tags and inputs; nil when the finding has no predicate (covers the
// whole assertion).
func (in *Interp) knownPredicateTerm(k *KnownFinding) *Term {
	tb := in.tb
	atoms, err := parsePredicate(k.Predicate)
	if err != nil || len(atoms) == 0 {
		return nil
	}
	var cs []*Term
	for _, a := range atoms {
		var t *Term
		if tg, ok := in.tags[a.name]; ok {
			t = tg
		} else if inp, ok := in.inputByName[a.name]; ok && inp.T != nil {
			t = inp.T
			if t.S.K == KBool {
				t = tb.Ite(t, tb.Int(1), tb.Int(0))
			} else if t.S.W < 64 {
				if inp.Signed {
					t = tb.SExt(64, t)
				} else {
					t = tb.ZExt(64, t)
				}
			}
		} else {
			return nil
		}
		c := tb.Int(a.val)
		switch a.op {
		case "==":
			cs = append(cs, tb.Eq(t, c))
		case "!=":
			cs = append(cs, tb.Ne(t, c))
		case "<":
			cs = append(cs, tb.SLt(t, c))
		case "<=":
			cs = append(cs, tb.SLe(t, c))
		case ">":
			cs = append(cs, tb.SLt(c, t))
		case ">=":
			cs = append(cs, tb.SLe(c, t))
		}
	}
	return tb.And(cs...)
}

package gosym

import (
	"sync/atomic"
	"fmt"
	"go/types"
	"os"
	"sort"
	"strings"
	"time"

	"golang.org/x/tools/go/ssa"
)

// ---- exploration bookkeeping ------------------------------------------

type decision struct {
	choice int
	alts   []int // remaining alternatives not yet explored
	pos    int   // trail position where this decision's constraint was added
	forking bool
}

type pathEnd struct {
	reason string
}

type Violation struct {
	Harness string            `json:"harness"`
	Label   string            `json:"label"`
	Kind    string            `json:"kind"` // assert | panic
	Site    string            `json:"site"`
	Inputs  map[string]any    `json:"inputs"`
	Tags    map[string]int64  `json:"tags,omitempty"`
	Known   string            `json:"known,omitempty"`
	Path    []int             `json:"path"`
	Events  []string          `json:"events,omitempty"`
}

type Input struct {
	Name string
	Kind string // int, bool, bytes, blob
	T    *Term  // scalar term, or length term for bytes/blob
	Arr  *Term  // array symbol for bytes/blob
	Max  int
	W    int
	Signed bool
}

type Config struct {
	Unwind       int
	MaxPaths     int
	MaxDepth     int // call depth
	SolverName   string
	TimeoutMs    int
	Transcript   string
	Logic        string
	Known        []KnownFinding
	Verbose      bool
	UnwindFn     map[string]int
	Deadline     time.Time
	NoPanicCheck bool
	// ViolAt (shared by the coordinator and the workers of one harness) holds the
	// time of the first violation that no known finding covers. Exploration carries
	// on for violGrace after it and is then cut short: the verdict no longer depends
	// on the remaining paths (a reproduced violation is exit 1; one that does not
	// reproduce is inconclusive), and a broken tree often explodes in paths.
	ViolAt *int64
}

const violGrace = 45 * time.Second

func (in *Interp) cutShort() bool {
	if in.cfg.ViolAt == nil {
		return false
	}
	v := atomic.LoadInt64(in.cfg.ViolAt)
	return v != 0 && time.Since(time.Unix(0, v)) > violGrace
}

type Stats struct {
	Paths, PathsKilledUnwind, PathsInfeasible int
	Branches                                  int
	Instrs                                    int64
	Obligations, Discharged                   int
	TrivialObl                                int
	Unknowns                                  int
	Covers                                    map[string]int
	Funcs                                     map[string]int
	Models                                    map[string]int
	Havocked                                  map[string]int
	Assumptions                               []string
	PanicChecks                               int
	ForkSites                                 map[string]int
}

type Interp struct {
	prog   *ssa.Program
	tb     *TB
	solver *Solver
	cfg    Config
	hname  string

	// exploration
	prefix []decision
	nDec   int
	trail  []*Term
	pos    int
	synced int

	// per path
	nextObj    int
	globals    map[*ssa.Global]*Obj
	pkgInited  map[*ssa.Package]bool
	readCache  map[readKey]*Term
	symCount   map[string]int
	inputs     []*Input
	inputByName map[string]*Input
	tags       map[string]*Term
	events     []string
	depth      int
	ghost      *Ghost
	unconfirmed bool
	curFn      []*ssa.Function

	// results
	stats      Stats
	violations []*Violation
	knownHits  map[string]int
	inconclusive []string
	samples    []map[string]any
	coverSample map[string]bool
	violSeen   map[string]bool

	modelTypes map[string]types.Type
	initDepth  int
	realBuffer bool // bytes.Buffer writers run from source (vRealBuffer)
	frozenClock *Term
	initTop    *ssa.Function
	sums       []sumRec
	allocHook  func(n *Term)
	digitCache map[*Term]StrV
	digitList  []*Term
	digitSigned map[*Term]bool
	lastNow    *Term
	firstNow   *Term
	symNames   map[string]StrV
	pfRE       []*regexModel
	prefer     *Term
	lastSec    *Term
	firstSec   *Term
	unixOf     map[*Term]*Term
	clockWindow *Term
	pid        *Term
	held       map[string][]byte
	track      *trackState
	fs         *fsModel

	// work sharing: the coordinator cuts paths after frontierDepth forking
	// decisions and records the decision prefixes; workers explore below a pinned
	// prefix.
	frontierDepth int
	frontier      [][]int
	pinned        int
	forks         int
	natives   map[string]nativeFn
	intrinsicsExtra map[string]func(in *Interp, args []Value) Value
}

type nativeFn func(in *Interp, fn *ssa.Function, args []Value) Value

func NewInterp(prog *ssa.Program, cfg Config) *Interp {
	in := &Interp{prog: prog, cfg: cfg}
	in.tb = NewTB()
	in.stats.Covers = map[string]int{}
	in.stats.Funcs = map[string]int{}
	in.stats.Models = map[string]int{}
	in.stats.Havocked = map[string]int{}
	in.stats.ForkSites = map[string]int{}
	in.knownHits = map[string]int{}
	in.coverSample = map[string]bool{}
	in.violSeen = map[string]bool{}
	in.modelTypes = map[string]types.Type{}
	in.natives = map[string]nativeFn{}
	in.intrinsicsExtra = map[string]func(in *Interp, args []Value) Value{}
	registerNatives(in)
	if in.cfg.Unwind == 0 {
		in.cfg.Unwind = 8
	}
	if in.cfg.MaxDepth == 0 {
		in.cfg.MaxDepth = 60
	}
	if in.cfg.TimeoutMs == 0 {
		in.cfg.TimeoutMs = 30000
	}
	return in
}

func (in *Interp) resetPath() {
	in.nDec = 0
	in.forks = 0
	in.pos = 0
	in.nextObj = 0
	in.globals = map[*ssa.Global]*Obj{}
	in.pkgInited = map[*ssa.Package]bool{}
	in.readCache = map[readKey]*Term{}
	in.symCount = map[string]int{}
	in.inputs = nil
	in.inputByName = map[string]*Input{}
	in.tags = map[string]*Term{}
	in.events = nil
	in.depth = 0
	in.ghost = newGhost()
	in.unconfirmed = false
	in.curFn = nil
	in.initDepth = 0
	in.realBuffer = false
	in.frozenClock = nil
	in.allocHook = nil
	in.sums = nil
	in.digitCache = map[*Term]StrV{}
	in.digitList = nil
	in.digitSigned = nil
	in.symNames = nil
	in.lastSec, in.firstSec, in.unixOf = nil, nil, nil
	in.lastNow = nil
	in.firstNow = nil
	in.clockWindow = nil
	in.pid = nil
	in.held, in.track = nil, nil
	in.fs = nil
}

// RunHarness explores all paths of the harness function.
func (in *Interp) RunHarness(fn *ssa.Function) error {
	in.hname = fn.Name()
	s, err := NewSolver(in.tb, in.cfg.SolverName, in.cfg.TimeoutMs, in.cfg.Transcript, in.cfg.Logic)
	if err != nil {
		return err
	}
	in.solver = s
	defer s.Close()
	for {
		in.resetPath()
		reason := in.runPath(fn)
		if reason != "frontier" {
			in.stats.Paths++
		}
		if in.cfg.Verbose {
			last := ""
			if reason == "unwind" && len(in.inconclusive) > 0 {
				last = " :: " + in.inconclusive[len(in.inconclusive)-1]
			}
			fmt.Fprintf(os.Stderr, "[%s] path %d ended: %s (decisions %d)%s\n", in.hname, in.stats.Paths, reason, in.nDec, last)
		}
		switch {
		case reason == "unwind":
			in.stats.PathsKilledUnwind++
		case reason == "infeasible":
			in.stats.PathsInfeasible++
		}
		// advance DFS
		k := len(in.prefix) - 1
		for k >= in.pinned && len(in.prefix[k].alts) == 0 {
			k--
		}
		if k < in.pinned {
			break
		}
		d := &in.prefix[k]
		d.choice = d.alts[0]
		d.alts = d.alts[1:]
		in.prefix = in.prefix[:k+1]
		// pop solver to the position before that decision's constraint
		if in.synced > d.pos {
			in.solver.Pop(in.synced - d.pos)
			in.synced = d.pos
			in.trail = in.trail[:d.pos]
		}
		if in.cfg.MaxPaths > 0 && in.stats.Paths >= in.cfg.MaxPaths {
			in.inconclusive = append(in.inconclusive, fmt.Sprintf("path budget %d exhausted", in.cfg.MaxPaths))
			break
		}
		if !in.cfg.Deadline.IsZero() && time.Now().After(in.cfg.Deadline) {
			in.inconclusive = append(in.inconclusive, "time budget exhausted")
			break
		}
		if in.cutShort() {
			in.inconclusive = append(in.inconclusive, "exploration cut short 45 s after the first violation")
			break
		}
	}
	if len(s.Errors) > 0 {
		in.inconclusive = append(in.inconclusive, "solver errors: "+strings.Join(s.Errors, "; "))
	}
	return nil
}

func (in *Interp) runPath(fn *ssa.Function) (reason string) {
	defer func() {
		if r := recover(); r != nil {
			if pe, ok := r.(pathEnd); ok {
				reason = pe.reason
				return
			}
			// engine error: report with context and re-panic as inconclusive
			stack := ""
			for _, f := range in.curFn {
				stack += " > " + f.String()
			}
			in.inconclusive = append(in.inconclusive, fmt.Sprintf("engine error: %v (in%s)", r, stack))
			if in.cfg.Verbose {
				panic(r)
			}
			reason = "engine-error"
		}
	}()
	in.call(fn, nil)
	return "done"
}

func (in *Interp) endPath(reason string) {
	panic(pathEnd{reason})
}

// addConstraint appends a constraint to the path condition, keeping the solver
// stack in sync with the trail across replays.
func (in *Interp) addConstraint(t *Term) {
	if t.IsTrue() {
		return
	}
	if in.pos < in.synced {
		if in.trail[in.pos] != t {
			panic(fmt.Sprintf("replay divergence at trail %d", in.pos))
		}
		in.pos++
		return
	}
	in.solver.Push()
	in.solver.Assert(t)
	in.trail = append(in.trail, t)
	in.pos++
	in.synced++
}

func (in *Interp) check(extra ...*Term) SatResult {
	r := in.solver.Check(extra...)
	in.solver.EndCheck()
	if r == Unknown {
		in.stats.Unknowns++
	}
	return r
}

// decide registers a decision point with the given feasible alternatives
// (computed lazily by feas when this point is new) and returns the choice.
func (in *Interp) decide(feas func() []int) int {
	d := in.nDec
	in.nDec++
	if d < len(in.prefix) {
		in.prefix[d].pos = in.pos
		if in.prefix[d].forking {
			in.forks++
		}
		return in.prefix[d].choice
	}
	alts := feas()
	if len(alts) == 0 {
		in.prefix = append(in.prefix, decision{choice: -1, pos: in.pos})
		in.endPath("infeasible")
	}
	if len(alts) >= 2 {
		in.forks++
		if in.frontierDepth > 0 && in.forks > in.frontierDepth {
			// hand every alternative of this decision over as a work item
			base := make([]int, d)
			for i := 0; i < d; i++ {
				base[i] = in.prefix[i].choice
			}
			for _, a := range alts {
				in.frontier = append(in.frontier, append(append([]int{}, base...), a))
			}
			in.nDec--
			in.endPath("frontier")
		}
	}
	in.prefix = append(in.prefix, decision{choice: alts[0], alts: alts[1:], pos: in.pos, forking: len(alts) >= 2})
	return alts[0]
}

// replayedPinned reports whether the decision just taken lies inside the pinned
// prefix of a worker (its effects were already accounted for by the coordinator).
func (in *Interp) replayedPinned() bool { return in.nDec-1 < in.pinned }

// branch decides a symbolic condition, forking when both sides are feasible.
func (in *Interp) branch(c *Term) bool {
	if c.IsConst() {
		return c.V == 1
	}
	in.stats.Branches++
	nc := in.tb.Not(c)
	ch := in.decide(func() []int {
		rt := in.check(c)
		if rt == Unsat {
			return []int{2} // forced false
		}
		rf := in.check(nc)
		if rf == Unsat {
			return []int{3} // forced true
		}
		if rt == Unknown || rf == Unknown {
			in.unconfirmed = true
		}
		if len(in.curFn) > 0 {
			in.stats.ForkSites[in.curFn[len(in.curFn)-1].String()]++
		}
		return []int{1, 0}
	})
	switch ch {
	case 1:
		in.addConstraint(c)
		return true
	case 0:
		in.addConstraint(nc)
		return false
	case 3:
		return true
	default:
		return false
	}
}

// choose forks over n alternatives; cond(i) gives the constraint of alternative i.
func (in *Interp) choose(n int, cond func(i int) *Term) int {
	ch := in.decide(func() []int {
		var alts []int
		for i := 0; i < n; i++ {
			c := cond(i)
			if c.IsFalse() {
				continue
			}
			if c.IsTrue() || in.check(c) != Unsat {
				alts = append(alts, i)
			}
		}
		return alts
	})
	in.addConstraint(cond(ch))
	return ch
}

// mustHold checks an implicit safety condition (bounds, nil, ...). When the
// negation is feasible a violation is recorded; the path continues under the
// condition.
func (in *Interp) mustHold(c *Term, kind, what string) {
	if c.IsTrue() {
		return
	}
	in.stats.PanicChecks++
	site := in.site()
	if c.IsFalse() {
		in.reportViolation(kind, what, site, nil)
		in.endPath("panic:" + what)
	}
	nc := in.tb.Not(c)
	// Is the failure feasible?  The decision is cached in the prefix so replays
	// do not repeat the query.
	ch := in.decide(func() []int {
		r := in.check(nc)
		if r == Unsat {
			return []int{0}
		}
		if r == Unknown {
			in.inconclusive = append(in.inconclusive, "unknown on implicit check "+what+" at "+site)
			return []int{0}
		}
		// feasible failure
		ok := in.check(c)
		if ok == Unsat {
			return []int{2}
		}
		return []int{1}
	})
	switch ch {
	case 0:
		return
	case 1, 2:
		key := kind + "|" + what + "|" + site
		if !in.violSeen[key+fmt.Sprint(in.prefixKey())] && !in.replayedPinned() {
			in.violSeen[key+fmt.Sprint(in.prefixKey())] = true
			in.handleViolation(kind, what, site, nc)
		}
		if ch == 2 {
			in.endPath("panic:" + what)
		}
		in.addConstraint(c)
	}
}

func (in *Interp) prefixKey() string {
	var sb strings.Builder
	for i := 0; i < in.nDec && i < len(in.prefix); i++ {
		fmt.Fprintf(&sb, "%d,", in.prefix[i].choice)
	}
	return sb.String()
}

func (in *Interp) site() string {
	if len(in.curFn) == 0 {
		return ""
	}
	// innermost function of /repo (skip std library and harness helpers)
	for i := len(in.curFn) - 1; i >= 0; i-- {
		f := in.curFn[i]
		if f.Pkg != nil && strings.HasPrefix(f.Pkg.Pkg.Path(), "github.com/bbockelm/cedar") && !strings.HasPrefix(f.Name(), "VH_") && !strings.HasPrefix(f.Name(), "vh") {
			return f.String()
		}
	}
	return in.curFn[len(in.curFn)-1].String()
}

// fresh returns a fresh symbol with a deterministic per-path name.
func (in *Interp) fresh(name string, s Sort) *Term {
	k := in.symCount[name]
	in.symCount[name] = k + 1
	if k > 0 {
		name = fmt.Sprintf("%s#%d", name, k)
	}
	return in.tb.Sym(name, s)
}

func (in *Interp) event(format string, a ...any) {
	in.events = append(in.events, fmt.Sprintf(format, a...))
}

func sortedKeys[V any](m map[string]V) []string {
	ks := make([]string, 0, len(m))
	for k := range m {
		ks = append(ks, k)
	}
	sort.Strings(ks)
	return ks
}

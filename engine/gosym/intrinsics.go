package gosym

import (
	"sync/atomic"
	"time"
	"fmt"
	"strings"

	"golang.org/x/tools/go/ssa"
)

var intrinsicNames = map[string]bool{
	"vInt": true, "vInt64": true, "vInt32": true, "vUint32": true, "vUint16": true, "vUint64": true, "vByte": true, "vBool": true,
	"vBytes": true, "vBlob": true, "vString": true, "vChoice": true, "vAssume": true, "vAssert": true,
	"vCover": true, "vAssertBytesEqual": true, "vTag": true, "vRegister": true, "vEvent": true,
	"vFloat64": true, "vIsSymbolic": true, "vGhostCount": true, "vGhostInt": true, "vFreshBytes": true,
	"vBytesEq": true, "vNative": true, "vHashOf": true, "vSealed": true, "vAssertStrEqual": true,
	"vASCII": true, "vObjID": true, "vLog": true, "vFromRNG": true, "vAllocLimit": true, "vPeerAd": true, "vNow": true, "vSymbolic": true,
	"vASCIIStr": true, "vNoneOf": true, "vClockWindow": true, "vIteInt": true, "vIteStr": true, "vAdSetStrIf": true, "vPick": true, "vIn": true, "vImplies": true, "vOr": true, "vAnd": true,
	"vTrackBegin": true, "vTrackEnd": true, "vIsNative": true, "vAssertNoLocksetConflict": true, "vFSEvents": true, "vRealBuffer": true, "vClockFrozen": true,
}

func isHarnessIntrinsic(n string) bool { return intrinsicNames[n] }

func (in *Interp) argStr(v Value) string {
	s, ok := in.concreteStr(v.(StrV))
	if !ok {
		panic("intrinsic name/label must be a constant string")
	}
	return s
}

func (in *Interp) declInput(inp *Input) {
	if _, dup := in.inputByName[inp.Name]; dup {
		panic("duplicate harness input name " + inp.Name)
	}
	in.inputs = append(in.inputs, inp)
	in.inputByName[inp.Name] = inp
}

func (in *Interp) scalarInput(name string, w int, signed bool) *Term {
	t := in.tb.Sym(name, BV(w))
	in.declInput(&Input{Name: name, Kind: "int", T: t, W: w, Signed: signed})
	return t
}

func (in *Interp) intrinsic(fn *ssa.Function, args []Value) Value {
	tb := in.tb
	switch fn.Name() {
	case "vRegister", "vLog":
		return nil
	case "vInt", "vInt64":
		return in.scalarInput(in.argStr(args[0]), 64, true)
	case "vUint64":
		return in.scalarInput(in.argStr(args[0]), 64, false)
	case "vInt32":
		return in.scalarInput(in.argStr(args[0]), 32, true)
	case "vUint32":
		return in.scalarInput(in.argStr(args[0]), 32, false)
	case "vUint16":
		return in.scalarInput(in.argStr(args[0]), 16, false)
	case "vByte":
		return in.scalarInput(in.argStr(args[0]), 8, false)
	case "vBool":
		name := in.argStr(args[0])
		t := tb.Sym(name, SBool)
		in.declInput(&Input{Name: name, Kind: "bool", T: t})
		return t
	case "vFloat64":
		name := in.argStr(args[0])
		bits := tb.Sym(name, BV(64))
		in.declInput(&Input{Name: name, Kind: "float", T: bits, W: 64})
		return tb.Raw("(_ to_fp 11 53)", SFP, bits)
	case "vChoice":
		name := in.argStr(args[0])
		n := int(args[1].(*Term).V)
		t := tb.Sym(name, BV(64))
		in.declInput(&Input{Name: name, Kind: "int", T: t, W: 64, Signed: true})
		k := in.choose(n, func(i int) *Term { return tb.Eq(t, tb.Int(int64(i))) })
		return tb.Int(int64(k))
	case "vBytes", "vString":
		name := in.argStr(args[0])
		mx := int(args[1].(*Term).V)
		ln := tb.Sym(name+".len", BV(64))
		arr := tb.Sym(name, SArr)
		in.declInput(&Input{Name: name, Kind: "bytes", T: ln, Arr: arr, Max: mx})
		in.addConstraint(tb.And(tb.SLe(tb.Int(0), ln), tb.SLe(ln, tb.Int(int64(mx)))))
		if fn.Name() == "vString" {
			return StrV{Mem: symMem(arr), Off: tb.Int(0), Len: ln, Max: mx}
		}
		o := in.newObj(symMem(arr), nil, "vBytes:"+name)
		return SliceV{Base: Ptr{Obj: o}, Off: tb.Int(0), Len: ln, Cap: ln, Byte: true, Max: mx}
	case "vBlob":
		name := in.argStr(args[0])
		ln := args[1].(*Term)
		arr := tb.Sym(name, SArr)
		in.declInput(&Input{Name: name, Kind: "blob", T: ln, Arr: arr, Max: -1})
		in.mustHold(tb.SLe(tb.Int(0), ln), "harness", "vBlob negative length")
		o := in.newObj(symMem(arr), nil, "vBlob:"+name)
		mx := -1
		if ln.IsConst() {
			mx = int(ln.V)
		}
		return SliceV{Base: Ptr{Obj: o}, Off: tb.Int(0), Len: ln, Cap: ln, Byte: true, Max: mx}
	case "vAssume":
		c := args[0].(*Term)
		if c.IsFalse() {
			in.endPath("infeasible")
		}
		if !c.IsTrue() {
			// feasibility is decided once and cached in the decision prefix
			ch := in.decide(func() []int {
				if in.check(c) == Unsat {
					return nil
				}
				return []int{0}
			})
			_ = ch
			in.addConstraint(c)
		}
		return nil
	case "vAssert":
		in.doAssert(args[0].(*Term), in.argStr(args[1]))
		return nil
	case "vCover":
		in.doCover(in.argStr(args[0]))
		return nil
	case "vTag":
		name := in.argStr(args[0])
		in.tags[name] = in.toInt(args[1].(*Term))
		return nil
	case "vEvent":
		in.event("%s", in.argStr(args[0]))
		return nil
	case "vAssertBytesEqual":
		a, b := args[0].(SliceV), args[1].(SliceV)
		label := in.argStr(args[2])
		k := in.fresh("skolem_"+label, BV(64))
		ma, mb := in.sliceMem(a), in.sliceMem(b)
		same := tb.And(tb.Eq(a.Len, b.Len),
			tb.Implies(tb.And(tb.SLe(tb.Int(0), k), tb.SLt(k, a.Len)),
				tb.Eq(in.memRead(ma, tb.Add(a.Off, k)), in.memRead(mb, tb.Add(b.Off, k)))))
		in.doAssert(same, label)
		return nil
	case "vAssertStrEqual":
		a, b := args[0].(StrV), args[1].(StrV)
		label := in.argStr(args[2])
		k := in.fresh("skolem_"+label, BV(64))
		same := tb.And(tb.Eq(a.Len, b.Len),
			tb.Implies(tb.And(tb.SLe(tb.Int(0), k), tb.SLt(k, a.Len)),
				tb.Eq(in.memRead(a.Mem, tb.Add(a.Off, k)), in.memRead(b.Mem, tb.Add(b.Off, k)))))
		in.doAssert(same, label)
		return nil
	case "vIsSymbolic":
		return tb.True
	case "vGhostCount":
		return tb.Int(int64(in.ghost.count(in.argStr(args[0]))))
	case "vASCII":
		// vASCII(b []byte|string): all bytes < 0x80 (bounded)
		var m *ByteMem
		var off, ln *Term
		var mx int
		switch x := args[0].(type) {
		case SliceV:
			m, off, ln, mx = in.sliceMem(x), x.Off, x.Len, x.Max
		case StrV:
			m, off, ln, mx = x.Mem, x.Off, x.Len, x.Max
		}
		cs := []*Term{}
		for i := 0; i < mx; i++ {
			ii := tb.Int(int64(i))
			cs = append(cs, tb.Or(tb.SLe(ln, ii), tb.ULt(in.memRead(m, tb.Add(off, ii)), tb.Const(8, 0x80))))
		}
		return tb.And(cs...)
	case "vIteInt":
		return tb.Ite(args[0].(*Term), args[1].(*Term), args[2].(*Term))
	case "vIteStr":
		c := args[0].(*Term)
		a, b := args[1].(StrV), args[2].(StrV)
		if c.IsTrue() {
			return a
		}
		if c.IsFalse() {
			return b
		}
		na, nb := in.needBound(a, "vIteStr"), in.needBound(b, "vIteStr")
		mx := na
		if nb > mx {
			mx = nb
		}
		m := zeroMem
		for j := 0; j < mx; j++ {
			m = in.memStore(m, tb.Int(int64(j)), tb.Ite(c, in.strByte(a, j), in.strByte(b, j)))
		}
		return StrV{Mem: m, Off: tb.Int(0), Len: tb.Ite(c, a.Len, b.Len), Max: mx}
	case "vASCIIStr":
		s := args[0].(StrV)
		bound := in.needBound(s, "vASCIIStr")
		cs := []*Term{}
		for i := 0; i < bound; i++ {
			cs = append(cs, tb.Or(tb.SLe(s.Len, tb.Int(int64(i))), tb.ULt(in.strByte(s, i), tb.Const(8, 0x80))))
		}
		return tb.And(cs...)
	case "vNoneOf":
		s := args[0].(StrV)
		chars := []byte(in.argStr(args[1]))
		bound := in.needBound(s, "vNoneOf")
		cs := []*Term{}
		for i := 0; i < bound; i++ {
			b := in.strByte(s, i)
			ok := tb.True
			for _, c := range chars {
				ok = tb.And(ok, tb.Ne(b, tb.Const(8, uint64(c))))
			}
			cs = append(cs, tb.Or(tb.SLe(s.Len, tb.Int(int64(i))), ok))
		}
		return tb.And(cs...)
	case "vImplies":
		return tb.Implies(args[0].(*Term), args[1].(*Term))
	case "vOr":
		return tb.Or(args[0].(*Term), args[1].(*Term))
	case "vAnd":
		return tb.And(args[0].(*Term), args[1].(*Term))
	case "vIn":
		s := args[0].(StrV)
		r := tb.False
		for _, o := range in.strSliceElems(args[1]) {
			r = tb.Or(r, in.strEq(s, o))
		}
		return r
	case "vPick":
		name := in.argStr(args[0])
		opts := in.strSliceElems(args[1])
		k := tb.Sym(name, BV(64))
		in.declInput(&Input{Name: name, Kind: "int", T: k, W: 64, Signed: true})
		in.addConstraint(tb.And(tb.SLe(tb.Int(0), k), tb.SLt(k, tb.Int(int64(len(opts))))))
		mx := 0
		for _, o := range opts {
			if !o.Len.IsConst() {
				panic("vPick: options must have concrete lengths")
			}
			if int(o.Len.V) > mx {
				mx = int(o.Len.V)
			}
		}
		ln := tb.Int(0)
		for i := len(opts) - 1; i >= 0; i-- {
			ln = tb.Ite(tb.Eq(k, tb.Int(int64(i))), opts[i].Len, ln)
		}
		m := zeroMem
		for j := 0; j < mx; j++ {
			b := tb.Const(8, 0)
			for i := len(opts) - 1; i >= 0; i-- {
				if j < int(opts[i].Len.V) {
					b = tb.Ite(tb.Eq(k, tb.Int(int64(i))), in.strByte(opts[i], j), b)
				}
			}
			m = in.memStore(m, tb.Int(int64(j)), b)
		}
		return StrV{Mem: m, Off: tb.Int(0), Len: ln, Max: mx}
	case "vAllocLimit":
		limit := in.toInt(args[0].(*Term))
		in.allocHook = func(n *Term) {
			// prefer a counterexample large enough to be measurable natively, small
			// enough to be harmless there
			in.prefer = tb.And(tb.SLe(tb.Add(limit, tb.Int(1<<20)), n), tb.SLe(n, tb.Int(1<<28)))
			in.mustHold(tb.SLe(n, limit), "alloc", "allocation out of proportion to the bytes received")
			in.prefer = nil
		}
		return nil
	case "vFromRNG":
		s := args[0].(SliceV)
		if !s.Len.IsConst() {
			return tb.False
		}
		ok := true
		seenIdx := map[uint64]bool{}
		for _, b := range in.sliceBytes(s, int(s.Len.V)) {
			isR := false
			if b.Op == OSelect && b.A[1].IsConst() && !seenIdx[b.A[1].V] {
				for _, ra := range in.ghost.randArrs {
					if ra == b.A[0] {
						isR = true
					}
				}
				seenIdx[b.A[1].V] = true
			}
			ok = ok && isR
		}
		return tb.Bool(ok)
	case "vObjID":
		switch x := args[0].(type) {
		case IfaceV:
			if p, ok := x.V.(Ptr); ok && p.Obj != nil {
				return tb.Int(int64(p.Obj.ID))
			}
			if mo, ok := x.V.(*ModelObj); ok {
				return tb.Int(int64(1000000 + mo.ID))
			}
		}
		return tb.Int(0)
	}
	if f, ok := in.intrinsicsExtra[fn.Name()]; ok {
		return f(in, args)
	}
	if f, ok := ghostIntrinsics[fn.Name()]; ok {
		return f(in, args)
	}
	panic("unknown intrinsic " + fn.Name())
}

func (in *Interp) doCover(label string) {
	in.stats.Covers[label]++
	if !in.coverSample[label] {
		in.coverSample[label] = true
		if in.check() == Sat || true {
			// fetch a witness input
			if r := in.solver.Check(); r == Sat {
				m := in.extractModel(nil)
				m["_cover"] = label
				m["_harness"] = in.hname
				in.samples = append(in.samples, m)
			}
			in.solver.EndCheck()
		}
	}
}

func (in *Interp) doAssert(c *Term, label string) {
	if c.IsTrue() {
		tk := "trivial|" + label + "|" + in.prefixKey()
		if !in.violSeen[tk] {
			in.violSeen[tk] = true
			in.stats.Obligations++
			in.stats.Discharged++
			in.stats.TrivialObl++
		}
		return
	}
	nc := in.tb.Not(c)
	// cache the verdict in the prefix (0 = holds, 1 = violated, 2 = violated and path cannot continue)
	ch := in.decide(func() []int {
		r := in.check(nc)
		switch r {
		case Unsat:
			return []int{0}
		case Unknown:
			in.inconclusive = append(in.inconclusive, "solver unknown on assertion "+label)
			return []int{0}
		}
		if c.IsFalse() || in.check(c) == Unsat {
			return []int{2}
		}
		return []int{1}
	})
	key := "assert|" + label + "|" + in.prefixKey()
	if in.violSeen[key] || in.replayedPinned() {
		// replayed decision: only restore the path condition
		if ch == 2 {
			in.endPath("assert-failed")
		}
		if ch == 1 {
			in.addConstraint(c)
		}
		return
	}
	in.violSeen[key] = true
	in.stats.Obligations++
	switch ch {
	case 0:
		in.stats.Discharged++
	case 1, 2:
		in.handleViolation("assert", label, in.site(), nc)
		if ch == 2 {
			in.endPath("assert-failed")
		}
		in.addConstraint(c)
	}
}

// extractModel reads the current model: scalar inputs, byte contents, tags.
// extraTerms lists terms whose array selects should be included for blobs.
func (in *Interp) extractModel(extra []*Term) map[string]any {
	res := map[string]any{}
	var ts []*Term
	for _, inp := range in.inputs {
		ts = append(ts, inp.T)
	}
	tagNames := sortedKeys(in.tags)
	for _, n := range tagNames {
		ts = append(ts, in.tags[n])
	}
	// bounded byte inputs: all positions
	type sel struct {
		inp *Input
		idx *Term
		val *Term
	}
	var sels []sel
	for _, inp := range in.inputs {
		if inp.Kind == "bytes" {
			for i := 0; i < inp.Max; i++ {
				idx := in.tb.Int(int64(i))
				sels = append(sels, sel{inp, idx, in.tb.Select(inp.Arr, idx)})
			}
		}
	}
	// blobs: selects occurring in the path condition / failing condition
	arrOwner := map[*Term]*Input{}
	for _, inp := range in.inputs {
		if inp.Kind == "blob" {
			arrOwner[inp.Arr] = inp
		}
	}
	if len(arrOwner) > 0 {
		seen := map[*Term]bool{}
		var walk func(t *Term)
		walk = func(t *Term) {
			if seen[t] {
				return
			}
			seen[t] = true
			if t.Op == OSelect {
				if inp, ok := arrOwner[t.A[0]]; ok {
					sels = append(sels, sel{inp, t.A[1], t})
				}
			}
			for _, a := range t.A {
				walk(a)
			}
		}
		for _, t := range in.trail[:in.pos] {
			walk(t)
		}
		for _, t := range extra {
			walk(t)
		}
	}
	for _, s := range sels {
		ts = append(ts, s.idx, s.val)
	}
	vals, err := in.solver.Values(ts)
	if err != nil {
		in.inconclusive = append(in.inconclusive, "model extraction failed: "+err.Error())
		return res
	}
	for _, inp := range in.inputs {
		v := vals[inp.T]
		switch inp.Kind {
		case "bool":
			res[inp.Name] = v == 1
		case "int", "float":
			if inp.Signed {
				res[inp.Name] = sext64(v, inp.W)
			} else {
				res[inp.Name] = v
			}
		case "bytes", "blob":
			res[inp.Name] = map[string]any{"len": int64(v), "bytes": map[string]int{}}
		}
	}
	for _, s := range sels {
		m := res[s.inp.Name].(map[string]any)
		idx := int64(vals[s.idx])
		ln := m["len"].(int64)
		if idx >= 0 && idx < ln {
			m["bytes"].(map[string]int)[fmt.Sprint(idx)] = int(vals[s.val])
		}
	}
	if len(tagNames) > 0 {
		tg := map[string]int64{}
		for _, n := range tagNames {
			tg[n] = int64(vals[in.tags[n]])
		}
		res["_tags"] = tg
	}
	return res
}

func (in *Interp) reportViolation(kind, what, site string, model map[string]any) {
	if model == nil {
		// concrete failure on this path: any model of the path condition is a witness
		if in.solver.Check() == Sat {
			model = in.extractModel(nil)
		}
		in.solver.EndCheck()
		if kf := in.matchKnown(kind, what, site, model); kf != nil {
			in.knownHits[kf.ID]++
			return
		}
	}
	v := &Violation{Harness: in.hname, Label: what, Kind: kind, Site: site, Inputs: model}
	if tg, ok := model["_tags"].(map[string]int64); ok {
		v.Tags = tg
	}
	v.Events = append([]string{}, in.events...)
	for i := 0; i < in.nDec && i < len(in.prefix); i++ {
		v.Path = append(v.Path, in.prefix[i].choice)
	}
	in.violations = append(in.violations, v)
	if in.cfg.ViolAt != nil {
		atomic.CompareAndSwapInt64(in.cfg.ViolAt, 0, time.Now().UnixNano())
	}
	if in.cfg.Verbose {
		stack := ""
		for _, f := range in.curFn {
			stack += " > " + f.String()
		}
		fmt.Printf("[%s] violation %s %q at %s\n   stack:%s\n", in.hname, kind, what, site, stack)
	}
}

// handleViolation obtains a model for failCond, matches it against the known
// findings and keeps searching (with the matched predicate excluded) for a
// different violation of the same check.
func (in *Interp) handleViolation(kind, what, site string, failCond *Term) {
	tb := in.tb
	extra := []*Term{failCond}
	if in.prefer != nil && in.check(failCond, in.prefer) == Sat {
		extra = append(extra, in.prefer)
	}
	for iter := 0; iter < 16; iter++ {
		r := in.solver.Check(extra...)
		if r != Sat {
			in.solver.EndCheck()
			if r == Unknown {
				in.inconclusive = append(in.inconclusive, "solver unknown while refining violation "+what)
			}
			return
		}
		model := in.extractModel(extra)
		in.solver.EndCheck()
		kf := in.matchKnown(kind, what, site, model)
		if kf == nil {
			in.reportViolation(kind, what, site, model)
			return
		}
		in.knownHits[kf.ID]++
		// exclude the known region and look again
		ex := in.knownPredicateTerm(kf)
		if ex == nil || ex.IsTrue() {
			return // the whole check is covered by the known finding
		}
		extra = append(extra, tb.Not(ex))
	}
}

func labelMatch(pat, s string) bool {
	if pat == "" || pat == "*" {
		return true
	}
	if strings.HasSuffix(pat, "*") {
		return strings.HasPrefix(s, strings.TrimSuffix(pat, "*"))
	}
	return pat == s
}

package gosym

import (
	"regexp"
	"bytes"
	"fmt"
	"go/ast"
	"go/format"
	"go/parser"
	"go/token"
	"os"
	"path/filepath"
	"strings"
)

// Seams: functions of /repo that harnesses may stub. For every entry of
// /verif/harness/seams.txt ("<pkgdir> <Recv|-> <Func>") the overlay copy of the
// defining file renames the function to <Func>__orig and adds a forwarding
// function that consults a package-level hook variable
//     VerifHook_<Recv>_<Func>
// first. /repo itself is never modified; the rewritten copy exists only in the
// overlay used by the engine's loader and by the native replay build, so both
// see exactly the same stubs. With no hook installed the forwarding function
// calls the original, i.e. behaviour is unchanged.

type seam struct {
	dir, recv, fn string
}

func loadSeams() []seam {
	b, err := os.ReadFile(filepath.Join(VerifDir, "harness", "seams.txt"))
	if err != nil {
		return nil
	}
	var out []seam
	for _, line := range strings.Split(string(b), "\n") {
		line = strings.TrimSpace(line)
		if line == "" || strings.HasPrefix(line, "#") {
			continue
		}
		f := strings.Fields(line)
		if len(f) != 3 {
			continue
		}
		out = append(out, seam{f[0], f[1], f[2]})
	}
	return out
}

func recvTypeName(fd *ast.FuncDecl) string {
	if fd.Recv == nil || len(fd.Recv.List) == 0 {
		return "-"
	}
	t := fd.Recv.List[0].Type
	if st, ok := t.(*ast.StarExpr); ok {
		t = st.X
	}
	if id, ok := t.(*ast.Ident); ok {
		return id.Name
	}
	return "?"
}

func exprString(fset *token.FileSet, e ast.Expr) string {
	var buf bytes.Buffer
	format.Node(&buf, fset, e)
	return buf.String()
}

// applySeams rewrites the files defining seam functions and stores the result in ov.
func applySeams(ov map[string][]byte) error {
	seams := loadSeams()
	byDir := map[string][]seam{}
	for _, s := range seams {
		byDir[s.dir] = append(byDir[s.dir], s)
	}
	for dir, ss := range byDir {
		files, _ := filepath.Glob(filepath.Join(RepoDir, dir, "*.go"))
		fset := token.NewFileSet()
		type pf struct {
			path string
			f    *ast.File
			src  []byte
		}
		var parsed []*pf
		for _, p := range files {
			if strings.HasSuffix(p, "_test.go") {
				continue
			}
			src, err := os.ReadFile(p)
			if err != nil {
				return err
			}
			f, err := parser.ParseFile(fset, p, src, parser.ParseComments)
			if err != nil {
				return fmt.Errorf("seams: parse %s: %v", p, err)
			}
			parsed = append(parsed, &pf{p, f, src})
		}
		extra := map[string]*bytes.Buffer{} // per file appended code
		type rename struct {
			pos  int
			name string
		}
		renames := map[string][]rename{}
		for _, s := range ss {
			found := false
			for _, p := range parsed {
				for _, d := range p.f.Decls {
					fd, ok := d.(*ast.FuncDecl)
					if !ok || fd.Name.Name != s.fn || recvTypeName(fd) != s.recv || fd.Body == nil {
						continue
					}
					found = true
					renames[p.path] = append(renames[p.path], rename{fset.Position(fd.Name.Pos()).Offset, s.fn})
					buf := extra[p.path]
					if buf == nil {
						buf = &bytes.Buffer{}
						extra[p.path] = buf
					}
					// parameters
					var params, args, ptypes []string
					k := 0
					if fd.Type.Params != nil {
						for _, fld := range fd.Type.Params.List {
							ts := exprString(fset, fld.Type)
							names := fld.Names
							n := len(names)
							if n == 0 {
								n = 1
							}
							for i := 0; i < n; i++ {
								nm := fmt.Sprintf("vp%d", k)
								k++
								params = append(params, nm+" "+ts)
								ptypes = append(ptypes, ts)
								if strings.HasPrefix(ts, "...") {
									args = append(args, nm+"...")
								} else {
									args = append(args, nm)
								}
							}
						}
					}
					results := ""
					if fd.Type.Results != nil {
						var rs []string
						for _, fld := range fd.Type.Results.List {
							ts := exprString(fset, fld.Type)
							n := len(fld.Names)
							if n == 0 {
								n = 1
							}
							for i := 0; i < n; i++ {
								rs = append(rs, ts)
							}
						}
						results = "(" + strings.Join(rs, ", ") + ")"
					}
					ret := "return "
					if results == "" {
						ret = ""
					}
					hook := "VerifHook_" + strings.ReplaceAll(s.recv, "-", "") + "_" + s.fn
					if s.recv == "-" {
						hook = "VerifHook_" + s.fn
						fmt.Fprintf(buf, "\nvar %s func(%s) %s\n", hook, strings.Join(ptypes, ", "), results)
						fmt.Fprintf(buf, "func %s(%s) %s {\n\tif %s != nil {\n\t\t%s%s(%s)\n\t\treturn\n\t}\n\t%s%s__orig(%s)\n\treturn\n}\n",
							s.fn, strings.Join(params, ", "), namedResults(results), hook, retAssign(ret, results), hook, strings.Join(args, ", "), retAssign(ret, results), s.fn, strings.Join(args, ", "))
					} else {
						rt := exprString(fset, fd.Recv.List[0].Type)
						fmt.Fprintf(buf, "\nvar %s func(%s) %s\n", hook, strings.Join(append([]string{rt}, ptypes...), ", "), results)
						fmt.Fprintf(buf, "func (vrecv %s) %s(%s) %s {\n\tif %s != nil {\n\t\t%s%s(%s)\n\t\treturn\n\t}\n\t%svrecv.%s__orig(%s)\n\treturn\n}\n",
							rt, s.fn, strings.Join(params, ", "), namedResults(results), hook, retAssign(ret, results), hook, strings.Join(append([]string{"vrecv"}, args...), ", "), retAssign(ret, results), s.fn, strings.Join(args, ", "))
					}
				}
			}
			if !found {
				return fmt.Errorf("seams: %s %s.%s not found", s.dir, s.recv, s.fn)
			}
		}
		for _, p := range parsed {
			rs := renames[p.path]
			if len(rs) == 0 {
				continue
			}
			src := p.src
			// apply renames from the end
			for i := 0; i < len(rs); i++ {
				for j := i + 1; j < len(rs); j++ {
					if rs[j].pos > rs[i].pos {
						rs[i], rs[j] = rs[j], rs[i]
					}
				}
			}
			out := append([]byte{}, src...)
			for _, r := range rs {
				end := r.pos + len(r.name)
				out = append(out[:end], append([]byte("__orig"), out[end:]...)...)
			}
			out = append(out, extra[p.path].Bytes()...)
			ov[p.path] = out
		}
	}
	return nil
}

// namedResults turns "(int, error)" into "(vr0 int, vr1 error)".
func namedResults(results string) string {
	if results == "" {
		return ""
	}
	inner := strings.TrimSuffix(strings.TrimPrefix(results, "("), ")")
	parts := splitTopLevel(inner)
	for i := range parts {
		parts[i] = fmt.Sprintf("vr%d %s", i, strings.TrimSpace(parts[i]))
	}
	return "(" + strings.Join(parts, ", ") + ")"
}

func retAssign(ret, results string) string {
	if results == "" {
		return ""
	}
	inner := strings.TrimSuffix(strings.TrimPrefix(results, "("), ")")
	n := len(splitTopLevel(inner))
	var vs []string
	for i := 0; i < n; i++ {
		vs = append(vs, fmt.Sprintf("vr%d", i))
	}
	return strings.Join(vs, ", ") + " = "
}

func splitTopLevel(s string) []string {
	var out []string
	depth := 0
	start := 0
	for i, c := range s {
		switch c {
		case '(', '[', '{':
			depth++
		case ')', ']', '}':
			depth--
		case ',':
			if depth == 0 {
				out = append(out, s[start:i])
				start = i + 1
			}
		}
	}
	out = append(out, s[start:])
	return out
}

// Yield points. harness/yields.txt lists source files ("<pkgdir> <file>") whose
// mutex operations are routed through VerifLockOp (harness/rt.go.tmpl) in the
// overlay copy: `x.mu.Lock()` becomes `VerifLockOp(&x.mu, "Lock")`, likewise Unlock,
// RLock, RUnlock, with or without `defer`. VerifLockOp performs the real operation on
// the real mutex and, when the outermost lock has just been released, calls
// VerifYieldHook if a harness installed one: that is where a harness lets another
// operation run, so an interleaving at lock-release granularity is executed
// deterministically -- identically by the engine and by the native replay, which are
// both built from this overlay. With no hook installed behaviour is unchanged.
var lockCallRE = regexp.MustCompile(`([A-Za-z_][A-Za-z0-9_]*(?:\.[A-Za-z_][A-Za-z0-9_]*)*)\.(Lock|Unlock|RLock|RUnlock)\(\)`)

func applyYields(ov map[string][]byte) error {
	b, err := os.ReadFile(filepath.Join(VerifDir, "harness", "yields.txt"))
	if err != nil {
		return nil
	}
	for _, line := range strings.Split(string(b), "\n") {
		f := strings.Fields(line)
		if len(f) != 2 || strings.HasPrefix(f[0], "#") {
			continue
		}
		p := filepath.Join(RepoDir, f[0], f[1])
		src, ok := ov[p]
		if !ok {
			src, err = os.ReadFile(p)
			if err != nil {
				return fmt.Errorf("yields: %v", err)
			}
		}
		ov[p] = lockCallRE.ReplaceAll(src, []byte(`VerifLockOp(&$1, "$2")`))
	}
	return nil
}

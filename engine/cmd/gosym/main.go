package main

import (
	"flag"
	"fmt"
	"os"
	"strconv"
	"runtime/pprof"
	"time"

	"verif/gosym/gosym"
)

func main() {
	if len(os.Args) < 2 {
		fmt.Fprintln(os.Stderr, "usage: gosym check <prop> [--tier quick|thorough] | replay <file> | list")
		os.Exit(2)
	}
	if p := os.Getenv("VERIF_PROF"); p != "" {
		f, _ := os.Create(p)
		pprof.StartCPUProfile(f)
		go func() {
			time.Sleep(45 * time.Second)
			pprof.StopCPUProfile()
			f.Close()
		}()
	}
	switch os.Args[1] {
	case "check":
		fs := flag.NewFlagSet("check", flag.ExitOnError)
		tier := fs.String("tier", os.Getenv("VERIF_TIER"), "quick|thorough")
		verbose := fs.Bool("v", false, "verbose")
		only := fs.String("harness", "", "only harnesses containing this text")
		noreplay := fs.Bool("no-replay", false, "skip native replay")
		jobs := fs.Int("j", 8, "parallel harnesses")
		xcheck := fs.Bool("xcheck", false, "cross-check transcripts on z3 4.8.12 and cvc5")
		prop := os.Args[2]
		fs.Parse(os.Args[3:])
		if *tier == "" {
			*tier = "quick"
		}
		seed, _ := strconv.ParseInt(os.Getenv("VERIF_SEED"), 10, 64)
		os.Exit(gosym.Check(gosym.CheckOpts{Prop: prop, Tier: *tier, Seed: seed, Verbose: *verbose, Only: *only, NoReplay: *noreplay, Jobs: *jobs, XCheck: *xcheck || *tier == "thorough"}))
	case "replay":
		os.Exit(gosym.Replay(os.Args[2]))
	case "list":
		l, err := gosym.Load(nil)
		if err != nil {
			fmt.Fprintln(os.Stderr, err)
			os.Exit(2)
		}
		for _, h := range l.Harnesses {
			fmt.Println(h.Prop, h.Name, h.PkgDir, h.Tier)
		}
	default:
		fmt.Fprintln(os.Stderr, "unknown command")
		os.Exit(2)
	}
}
